//! Component `quant` (float-derived entropy models): protocol runner (real code), case
//! generator, implementation-level oracles.
//!
//! Protocol (see `lean/CV/Driver/Quant.lean` for the Lean twin):
//! ```text
//! quant.fast    <ctor> <f32|f64> <B> <P> <norm|-> <tbl>           ctor: cont ncenc ncdec lkc lknc
//! quant.perfect <f32|f64> <B> <P> <tbl> <weights>
//! quant.lazy    <f32|f64> <B> <P> <norm|-> <tbl> | enc s | dec q | table | sweep lo hi stride
//! quant.new     <sym> <B> <P> <min> <max>
//! quant.leaky   <sym> <B> <P> <min> <max> <hint> <dist…> | full rec | enc s rec | dec q inv rec
//!                                                          | table rec | sweep lo hi stride
//! ```
#![allow(unused)]
use std::cell::RefCell;
use std::fmt::Debug;

use constriction::stream::model::{
    ContiguousCategoricalEntropyModel, ContiguousLookupDecoderModel, DecoderModel, EncoderModel,
    EntropyModel, IterableEntropyModel, LazyContiguousCategoricalEntropyModel,
    LeakilyQuantizedDistribution, LeakyQuantizer, NonContiguousCategoricalDecoderModel,
    NonContiguousCategoricalEncoderModel, NonContiguousLookupDecoderModel,
};
use constriction::{BitArray, NonZeroBitArray};
use num_traits::float::FloatCore;
use num_traits::{AsPrimitive, PrimInt, WrappingAdd, WrappingSub};
use probability::distribution::{Binomial, Cauchy, Distribution, Gaussian, Inverse, Laplace};

use crate::util::*;

// ---------------------------------------------------------------------------------------
// small helpers

pub trait Fl:
    FloatCore + core::iter::Sum<Self> + Into<f64> + Debug + 'static + num_traits::Float
{
    const NAME: &'static str;
    fn from_bits_u(b: u128) -> Self;
    fn bits_u(self) -> u128;
}
impl Fl for f32 {
    const NAME: &'static str = "f32";
    fn from_bits_u(b: u128) -> Self {
        f32::from_bits(b as u32)
    }
    fn bits_u(self) -> u128 {
        self.to_bits() as u128
    }
}
impl Fl for f64 {
    const NAME: &'static str = "f64";
    fn from_bits_u(b: u128) -> Self {
        f64::from_bits(b as u64)
    }
    fn bits_u(self) -> u128 {
        self.to_bits() as u128
    }
}

type Triple = (u128, u128, u128);

fn show_triples(t: &[Triple]) -> String {
    if t.is_empty() {
        return "-".into();
    }
    t.iter()
        .map(|(s, c, p)| format!("{:x}:{:x}:{:x}", s, c, p))
        .collect::<Vec<_>>()
        .join(",")
}

/// C03-validity of a symbol table at precision `p`: in-order tiling of `[0, 2^p)` by non-empty
/// intervals, at least two symbols
fn table_valid(p: u32, t: &[Triple]) -> bool {
    let total = 1u128 << p;
    let mut expect = 0u128;
    for &(_, c, pr) in t {
        if c != expect || pr == 0 || pr >= total {
            return false;
        }
        expect = c + pr;
    }
    t.len() >= 2 && expect == total
}

fn b01(b: bool) -> &'static str {
    if b {
        "1"
    } else {
        "0"
    }
}

fn parse_opt_hex(s: &str) -> Option<Option<u128>> {
    if s == "-" {
        Some(None)
    } else {
        parse_hex(s).map(Some)
    }
}

// ---------------------------------------------------------------------------------------
// fast / lazy / perfect

thread_local! {
    /// decoder evaluations ("quantile_function returned an in-support symbol whose bin contains
    /// the quantile, without panicking") accumulated for property C10
    static C10_EVALS: std::cell::Cell<u64> = std::cell::Cell::new(0);
}
fn c10_add(n: u64) {
    C10_EVALS.with(|c| c.set(c.get() + n));
}
fn c10_drain(rep: &mut Report) {
    let n = C10_EVALS.with(|c| c.replace(0));
    if n > 0 {
        *rep.evals.entry("C10".into()).or_insert(0) += n;
    }
}

/// the `lookup_table` of a lookup decoder model, read through its derived `Debug` — a *safe*
/// view (the field is private and `quantile_function` indexes it unchecked)
fn debug_lookup_table<T: Debug>(m: &T) -> Option<Vec<u128>> {
    let s = format!("{:?}", m);
    let i = s.find("lookup_table: [")? + "lookup_table: [".len();
    let j = i + s[i..].find(']')?;
    let body = s[i..j].trim();
    if body.is_empty() {
        return Some(vec![]);
    }
    body.split(',').map(|t| t.trim().parse::<u128>().ok()).collect()
}

/// validates a lookup decoder model through safe views only, BEFORE `quantile_function` (whose
/// unchecked indexing would abort the process on a broken table): the table has `2^P` entries
/// and entry `q` is the index of the bin of the symbol table that contains `q`
fn lookup_table_check<T: Debug>(m: &T, p: u32, table: &[Triple]) -> Result<(), String> {
    let lt = debug_lookup_table(m).ok_or_else(|| "the lookup table is not visible in the Debug output".to_string())?;
    let total = pow2(p) as usize;
    if lt.len() != total {
        return Err(format!("its lookup table has {} entries instead of 2^{} = {} (quantile_function would index it out of bounds)", lt.len(), p, total));
    }
    if !table_valid(p, table) {
        return Err(format!("its symbol table is not a tiling of [0, 2^P): {}", show_triples(&table[..table.len().min(8)])));
    }
    let mut bin = 0usize;
    for (q, &e) in lt.iter().enumerate() {
        while bin + 1 < table.len() && (q as u128) >= table[bin].1 + table[bin].2 {
            bin += 1;
        }
        if e as usize != bin {
            return Err(format!("its lookup table maps quantile {:x} to bin {} but the symbol table puts it into bin {}", q, e, bin));
        }
    }
    Ok(())
}

/// decoder ops appended to a `quant.fast` line: `dec q`, `sweep lo hi stride` (quantiles `< 2^P`)
fn dec_ops(p: u32, head: String, ops: &[Option<LazyOp>], dec: Option<&dyn Fn(u128) -> Triple>) -> String {
    let mut outs = vec![head];
    let total = pow2(p);
    for op in ops {
        let r = guarded(|| -> Option<String> {
            let dec = dec?;
            Some(match op.as_ref()? {
                LazyOp::Dec(q) => {
                    if *q >= total {
                        return None;
                    }
                    let (s, c, pr) = dec(*q);
                    format!("{:x} {:x} {:x}", s, c, pr)
                }
                LazyOp::Sweep(lo, hi, stride) => {
                    if *stride == 0 || *hi >= total {
                        return None;
                    }
                    let (mut q, mut cnt, mut dg) = (*lo, 0u128, DIGEST_INIT);
                    while q <= *hi {
                        let (s, c, pr) = dec(q);
                        dg = digest_step(digest_step(digest_step(dg, s), c), pr);
                        cnt += 1;
                        q += *stride;
                    }
                    format!("{:x} {:x}", cnt, dg)
                }
                _ => return None,
            })
        });
        match r {
            Ok(Some(x)) => outs.push(x),
            Ok(None) => {
                outs.push("bad-op".into());
                break;
            }
            Err(class) => {
                outs.push(class.into());
                break;
            }
        }
    }
    outs.join(" | ")
}

fn fast_head(p: u32, table: &[Triple]) -> String {
    format!("ok {} mono=1 valid={}", show_triples(table), b01(table_valid(p, table)))
}

fn fast_line<F, Pr, const P: usize>(ctor: &str, tbl: &[u128], norm: Option<u128>, ops: &[Option<LazyOp>]) -> String
where
    F: Fl + AsPrimitive<Pr>,
    Pr: BitArray + AsPrimitive<usize>,
    usize: AsPrimitive<Pr> + AsPrimitive<F>,
{
    let probs: Vec<F> = tbl.iter().map(|&b| F::from_bits_u(b)).collect();
    let norm = norm.map(F::from_bits_u);
    let n = probs.len();
    let tr = |x: (usize, Pr, Pr::NonZero)| -> Triple { (x.0 as u128, to_u128(x.1), to_u128(x.2.get())) };
    match ctor {
        "cont" => {
            match ContiguousCategoricalEntropyModel::<Pr, Vec<Pr>, P>::from_floating_point_probabilities_fast(&probs, norm) {
                Err(()) => "rejected".into(),
                Ok(m) => {
                    let table: Vec<Triple> = m.symbol_table().map(tr).collect();
                    let dec = |q: u128| tr(m.quantile_function(from_u128(q)));
                    dec_ops(P as u32, fast_head(P as u32, &table), ops, Some(&dec))
                }
            }
        }
        "ncenc" => {
            match NonContiguousCategoricalEncoderModel::<usize, Pr, P>::from_symbols_and_floating_point_probabilities_fast(0..n, &probs, norm) {
                Err(()) => "rejected".into(),
                Ok(m) => {
                    let mut t: Vec<Triple> = (0..n)
                        .filter_map(|s| {
                            m.left_cumulative_and_probability(s)
                                .map(|(c, p)| (s as u128, to_u128(c), to_u128(p.get())))
                        })
                        .collect();
                    t.sort_by_key(|x| x.1);
                    dec_ops(P as u32, fast_head(P as u32, &t), ops, None)
                }
            }
        }
        "ncdec" => {
            match NonContiguousCategoricalDecoderModel::<usize, Pr, Vec<(Pr, usize)>, P>::from_symbols_and_floating_point_probabilities_fast(0..n, &probs, norm) {
                Err(()) => "rejected".into(),
                Ok(m) => {
                    let table: Vec<Triple> = m.symbol_table().map(tr).collect();
                    let dec = |q: u128| tr(m.quantile_function(from_u128(q)));
                    dec_ops(P as u32, fast_head(P as u32, &table), ops, Some(&dec))
                }
            }
        }
        _ => "bad-op".into(),
    }
}

fn fast_lookup_line<F, Pr, const P: usize>(ctor: &str, tbl: &[u128], norm: Option<u128>, ops: &[Option<LazyOp>]) -> String
where
    F: Fl + AsPrimitive<Pr>,
    Pr: BitArray + AsPrimitive<usize> + Into<usize>,
    usize: AsPrimitive<Pr> + AsPrimitive<F>,
    f64: AsPrimitive<Pr>,
{
    let probs: Vec<F> = tbl.iter().map(|&b| F::from_bits_u(b)).collect();
    let norm = norm.map(F::from_bits_u);
    let n = probs.len();
    let tr = |x: (usize, Pr, Pr::NonZero)| -> Triple { (x.0 as u128, to_u128(x.1), to_u128(x.2.get())) };
    match ctor {
        "lkc" => {
            match ContiguousLookupDecoderModel::<Pr, Vec<Pr>, Box<[Pr]>, P>::from_floating_point_probabilities_fast(&probs, norm) {
                Err(()) => "rejected".into(),
                Ok(m) => {
                    let table: Vec<Triple> = m.symbol_table().map(tr).collect();
                    // the decoder reads the lookup *table*, which `symbol_table()` does not show;
                    // a broken table must give an answer (a mismatch), not an out-of-bounds abort
                    if let Err(what) = lookup_table_check(&m, P as u32, &table) {
                        return format!("{} | invalid-lookup-model: {}", fast_head(P as u32, &table), what);
                    }
                    let dec = |q: u128| tr(m.quantile_function(from_u128(q)));
                    dec_ops(P as u32, fast_head(P as u32, &table), ops, Some(&dec))
                }
            }
        }
        "lknc" => {
            match NonContiguousLookupDecoderModel::<usize, Pr, Vec<(Pr, usize)>, Box<[Pr]>, P>::from_symbols_and_floating_point_probabilities_fast(0..n, &probs, norm) {
                Err(()) => "rejected".into(),
                Ok(m) => {
                    let table: Vec<Triple> = m.symbol_table().map(tr).collect();
                    if let Err(what) = lookup_table_check(&m, P as u32, &table) {
                        return format!("{} | invalid-lookup-model: {}", fast_head(P as u32, &table), what);
                    }
                    let dec = |q: u128| tr(m.quantile_function(from_u128(q)));
                    dec_ops(P as u32, fast_head(P as u32, &table), ops, Some(&dec))
                }
            }
        }
        _ => "bad-op".into(),
    }
}

/// weights produced by the `…_perfect` constructor (`None` = rejected)
fn perfect_weights<F, Pr, const P: usize>(tbl: &[u128]) -> Option<Vec<u128>>
where
    F: Fl,
    Pr: BitArray + Into<f64> + AsPrimitive<usize>,
    f64: AsPrimitive<Pr>,
    usize: AsPrimitive<Pr>,
{
    let probs: Vec<F> = tbl.iter().map(|&b| F::from_bits_u(b)).collect();
    match ContiguousCategoricalEntropyModel::<Pr, Vec<Pr>, P>::from_floating_point_probabilities_perfect(&probs) {
        Err(()) => None,
        Ok(m) => Some(m.symbol_table().map(|(_, _, p)| to_u128(p.get())).collect()),
    }
}

fn perfect_line<F, Pr, const P: usize>(tbl: &[u128], w: &[u128]) -> String
where
    F: Fl,
    Pr: BitArray + Into<f64> + AsPrimitive<usize>,
    f64: AsPrimitive<Pr>,
    usize: AsPrimitive<Pr>,
{
    match perfect_weights::<F, Pr, P>(tbl) {
        None => "rejected".into(),
        Some(v) => {
            if v == w {
                "ok valid".into()
            } else {
                "ok changed".into()
            }
        }
    }
}

#[derive(Clone, Debug)]
enum LazyOp {
    Enc(u128),
    Dec(u128),
    Table,
    Sweep(u128, u128, u128),
}

fn parse_lazy_op(seg: &[&str]) -> Option<LazyOp> {
    Some(match seg {
        ["enc", s] => LazyOp::Enc(parse_hex(s)?),
        ["dec", q] => LazyOp::Dec(parse_hex(q)?),
        ["table"] => LazyOp::Table,
        ["sweep", lo, hi, st] => LazyOp::Sweep(parse_hex(lo)?, parse_hex(hi)?, parse_hex(st)?),
        _ => return None,
    })
}

fn lazy_line<F, Pr, const P: usize>(tbl: &[u128], norm: Option<u128>, ops: &[Option<LazyOp>]) -> String
where
    F: Fl + AsPrimitive<Pr>,
    Pr: BitArray + AsPrimitive<usize> + AsPrimitive<F>,
    usize: AsPrimitive<Pr> + AsPrimitive<F>,
{
    let probs: Vec<F> = tbl.iter().map(|&b| F::from_bits_u(b)).collect();
    let norm = norm.map(F::from_bits_u);
    let m = match LazyContiguousCategoricalEntropyModel::<Pr, F, _, P>::from_floating_point_probabilities_fast(&probs[..], norm) {
        Err(()) => return "rejected".into(),
        Ok(m) => m,
    };
    let mut outs = vec!["ok mono=1".to_string()];
    let bmax = if Pr::BITS >= 128 { u128::MAX } else { (1u128 << Pr::BITS) - 1 };
    for op in ops {
        let r = guarded(|| -> Option<String> {
            Some(match op.as_ref()? {
                LazyOp::Enc(s) => {
                    if *s > usize::MAX as u128 {
                        return None;
                    }
                    match m.left_cumulative_and_probability(*s as usize) {
                        None => "none".into(),
                        Some((c, p)) => format!("{:x} {:x}", to_u128(c), to_u128(p.get())),
                    }
                }
                LazyOp::Dec(q) => {
                    if *q > bmax {
                        return None;
                    }
                    let (s, c, p) = m.quantile_function(from_u128(*q));
                    format!("{:x} {:x} {:x} tbf2=1", s, to_u128(c), to_u128(p.get()))
                }
                LazyOp::Table => {
                    let mut t = Vec::new();
                    for s in 0..probs.len() {
                        match m.left_cumulative_and_probability(s) {
                            None => return Some("none".into()),
                            Some((c, p)) => t.push((s as u128, to_u128(c), to_u128(p.get()))),
                        }
                    }
                    show_triples(&t)
                }
                LazyOp::Sweep(lo, hi, stride) => {
                    if *stride == 0 || *hi > bmax {
                        return None;
                    }
                    let mut q = *lo;
                    let mut cnt = 0u128;
                    let mut dg = DIGEST_INIT;
                    while q <= *hi {
                        let (s, c, p) = m.quantile_function(from_u128(q));
                        dg = digest_step(dg, s as u128);
                        dg = digest_step(dg, to_u128(c));
                        dg = digest_step(dg, to_u128(p.get()));
                        cnt += 1;
                        q += *stride;
                    }
                    format!("{:x} {:x}", cnt, dg)
                }
            })
        });
        match r {
            Ok(Some(s)) => outs.push(s),
            Ok(None) => {
                outs.push("bad-op".into());
                break;
            }
            Err(class) => {
                outs.push(class.into());
                break;
            }
        }
    }
    outs.join(" | ")
}

macro_rules! gen_dispatch {
    ($name:ident, $func:ident, ($($sig:tt)*) $call:tt -> $ret:ty, [$(($F:ty, $Pr:ty, $P:literal)),* $(,)?]) => {
        fn $name(f: &str, b: u32, p: u32, $($sig)*) -> Option<$ret> {
            $( if f == <$F as Fl>::NAME && b == <$Pr>::BITS as u32 && p == $P {
                return Some($func::<$F, $Pr, $P> $call);
            } )*
            None
        }
    };
}

macro_rules! fp_combos {
    ($($head:tt)*) => {
        gen_dispatch!($($head)*, [
            (f32, u8, 1), (f32, u8, 2), (f32, u8, 3), (f32, u8, 8),
            (f32, u16, 1), (f32, u16, 8), (f32, u16, 12), (f32, u16, 15), (f32, u16, 16),
            (f32, u32, 12), (f32, u32, 24), (f32, u32, 31), (f32, u32, 32),
            (f32, u64, 32), (f32, u64, 63), (f32, u64, 64),
            (f64, u8, 1), (f64, u8, 2), (f64, u8, 3), (f64, u8, 8),
            (f64, u16, 1), (f64, u16, 8), (f64, u16, 12), (f64, u16, 15), (f64, u16, 16),
            (f64, u32, 12), (f64, u32, 24), (f64, u32, 31), (f64, u32, 32),
            (f64, u64, 32), (f64, u64, 63), (f64, u64, 64),
        ]);
    };
}
pub const FP_BP: &[(u32, &[u32])] = &[(8, &[1, 2, 3, 8]), (16, &[1, 8, 12, 15, 16]), (32, &[12, 24, 31, 32]), (64, &[32, 63, 64])];

macro_rules! lookup_combos {
    ($($head:tt)*) => {
        gen_dispatch!($($head)*, [
            (f32, u8, 1), (f32, u8, 3), (f32, u8, 8), (f32, u16, 8), (f32, u16, 12), (f32, u16, 16),
            (f64, u8, 1), (f64, u8, 3), (f64, u8, 8), (f64, u16, 8), (f64, u16, 12), (f64, u16, 16),
        ]);
    };
}
pub const LOOKUP_BP: &[(u32, &[u32])] = &[(8, &[1, 3, 8]), (16, &[8, 12, 16])];

macro_rules! perfect_combos {
    ($($head:tt)*) => {
        gen_dispatch!($($head)*, [
            (f32, u8, 3), (f32, u8, 8), (f32, u16, 12), (f32, u16, 16), (f32, u32, 24), (f32, u32, 32),
            (f64, u8, 3), (f64, u8, 8), (f64, u16, 12), (f64, u16, 16), (f64, u32, 24), (f64, u32, 32),
        ]);
    };
}
pub const PERFECT_BP: &[(u32, &[u32])] = &[(8, &[3, 8]), (16, &[12, 16]), (32, &[24, 32])];

fp_combos!(dispatch_fast, fast_line, (ctor: &str, tbl: &[u128], norm: Option<u128>, ops: &[Option<LazyOp>]) (ctor, tbl, norm, ops) -> String);
lookup_combos!(dispatch_fast_lookup, fast_lookup_line, (ctor: &str, tbl: &[u128], norm: Option<u128>, ops: &[Option<LazyOp>]) (ctor, tbl, norm, ops) -> String);
fp_combos!(dispatch_lazy, lazy_line, (tbl: &[u128], norm: Option<u128>, ops: &[Option<LazyOp>]) (tbl, norm, ops) -> String);
perfect_combos!(dispatch_perfect, perfect_line, (tbl: &[u128], w: &[u128]) (tbl, w) -> String);
perfect_combos!(dispatch_perfect_weights, perfect_weights, (tbl: &[u128]) (tbl) -> Option<Vec<u128>>);

// ---------------------------------------------------------------------------------------
// leaky quantizer: distributions with recording

#[derive(Clone, Debug)]
pub enum Base {
    Gauss(f64, f64),
    Cauchy(f64, f64),
    Laplace(f64, f64),
    /// step-shaped CDF: `cdf(x) = cs[#{i : xs[i] <= x}]` (`cs.len() == xs.len() + 1`)
    Step(Vec<f64>, Vec<f64>),
    Binom(usize, f64),
}

enum Built {
    Gauss(Gaussian),
    Cauchy(Cauchy),
    Laplace(Laplace),
    Step(Vec<f64>, Vec<f64>),
    Binom(Binomial),
}

impl Base {
    fn build(&self) -> Built {
        match self {
            Base::Gauss(a, b) => Built::Gauss(Gaussian::new(*a, *b)),
            Base::Cauchy(a, b) => Built::Cauchy(Cauchy::new(*a, *b)),
            Base::Laplace(a, b) => Built::Laplace(Laplace::new(*a, *b)),
            Base::Step(x, c) => Built::Step(x.clone(), c.clone()),
            Base::Binom(n, p) => Built::Binom(Binomial::new(*n, *p)),
        }
    }
    fn is_u(&self) -> bool {
        matches!(self, Base::Binom(..))
    }
    /// the CDF is nondecreasing with values in `[0, 1]` by construction (every library
    /// distribution; a step function only if its levels are sorted and inside `[0, 1]`)
    pub fn valid_by_construction(&self) -> bool {
        match self {
            Base::Step(_, cs) => cs.windows(2).all(|w| w[0] <= w[1]) && cs.iter().all(|c| (0.0..=1.0).contains(c)),
            _ => true,
        }
    }
    fn tokens(&self) -> String {
        let fl = |v: &Vec<f64>| show_list(v.iter().map(|x| x.to_bits() as u128));
        match self {
            Base::Gauss(a, b) => format!("gauss {:x} {:x}", a.to_bits(), b.to_bits()),
            Base::Cauchy(a, b) => format!("cauchy {:x} {:x}", a.to_bits(), b.to_bits()),
            Base::Laplace(a, b) => format!("laplace {:x} {:x}", a.to_bits(), b.to_bits()),
            Base::Step(x, c) => format!("step {} {}", fl(x), fl(c)),
            Base::Binom(n, p) => format!("binom {:x} {:x}", n, p.to_bits()),
        }
    }
    fn parse(t: &[&str]) -> Option<Base> {
        let f = |s: &str| parse_hex(s).map(|b| f64::from_bits(b as u64));
        let fl = |s: &str| parse_list(s).map(|v| v.iter().map(|&b| f64::from_bits(b as u64)).collect::<Vec<_>>());
        Some(match t {
            ["gauss", a, b] => Base::Gauss(f(a)?, f(b)?),
            ["cauchy", a, b] => Base::Cauchy(f(a)?, f(b)?),
            ["laplace", a, b] => Base::Laplace(f(a)?, f(b)?),
            ["step", x, c] => Base::Step(fl(x)?, fl(c)?),
            ["binom", n, p] => Base::Binom(parse_hex(n)? as usize, f(p)?),
            _ => return None,
        })
    }
}

impl Built {
    fn cdf(&self, x: f64) -> f64 {
        match self {
            Built::Gauss(d) => d.distribution(x),
            Built::Cauchy(d) => d.distribution(x),
            Built::Laplace(d) => d.distribution(x),
            Built::Step(xs, cs) => cs[xs.iter().take_while(|&&b| b <= x).count()],
            Built::Binom(d) => d.distribution(x),
        }
    }
    fn inv_f(&self, p: f64) -> f64 {
        match self {
            Built::Gauss(d) => d.inverse(p),
            Built::Cauchy(d) => d.inverse(p),
            Built::Laplace(d) => d.inverse(p),
            Built::Step(xs, cs) => {
                let k = cs.iter().take_while(|&&c| c < p).count();
                if xs.is_empty() {
                    0.0
                } else if k == 0 {
                    xs[0] - 1.0
                } else {
                    xs[(k - 1).min(xs.len() - 1)]
                }
            }
            Built::Binom(d) => d.inverse(p) as f64,
        }
    }
    fn inv_u(&self, p: f64) -> usize {
        match self {
            Built::Binom(d) => d.inverse(p),
            _ => 0,
        }
    }
}

#[derive(Clone, Copy, Debug)]
pub enum HintMode {
    True,
    /// true inverse plus a deterministic pseudo-random error of magnitude up to `scale`
    Noisy(u64, f64),
    ConstF(f64),
    ConstU(usize),
}

impl HintMode {
    /// the `<hint>` header token and the trailing mode tokens
    fn tokens(&self) -> (String, String) {
        match self {
            HintMode::True => ("rec".into(), "true".into()),
            HintMode::Noisy(seed, sc) => ("rec".into(), format!("noisy {:x} {:x}", seed, sc.to_bits())),
            HintMode::ConstF(v) => (format!("f:{:x}", v.to_bits()), "const".into()),
            HintMode::ConstU(v) => (format!("u:{:x}", v), "const".into()),
        }
    }
    fn parse(hint: &str, tail: &[&str]) -> Option<HintMode> {
        if hint == "rec" {
            match tail {
                ["true"] => Some(HintMode::True),
                ["noisy", s, sc] => Some(HintMode::Noisy(parse_hex(s)? as u64, f64::from_bits(parse_hex(sc)? as u64))),
                _ => None,
            }
        } else {
            let (k, v) = hint.split_once(':')?;
            let v = parse_hex(v)?;
            match k {
                "f" => Some(HintMode::ConstF(f64::from_bits(v as u64))),
                "u" => Some(HintMode::ConstU(v as usize)),
                _ => None,
            }
        }
    }
    fn is_const(&self) -> bool {
        matches!(self, HintMode::ConstF(_) | HintMode::ConstU(_))
    }
}

fn noise(seed: u64, pbits: u64, scale: f64) -> f64 {
    let mut r = Rng(seed ^ pbits.wrapping_mul(0x9e37_79b9_7f4a_7c15));
    let u = (r.next() >> 11) as f64 / (1u64 << 53) as f64; // [0,1)
    (2.0 * u - 1.0) * scale
}

type RecCdf = RefCell<Vec<(u64, u64)>>;
type RecInv = RefCell<Vec<(u64, char, u64)>>;

/// `Distribution<Value = f64>` with recording of all external calls
#[derive(Clone, Copy)]
struct RecF<'a> {
    d: &'a Built,
    hint: HintMode,
    rec: &'a RecCdf,
    inv: &'a RecInv,
}
impl<'a> Distribution for RecF<'a> {
    type Value = f64;
    fn distribution(&self, x: f64) -> f64 {
        let c = self.d.cdf(x);
        self.rec.borrow_mut().push((x.to_bits(), c.to_bits()));
        c
    }
}
impl<'a> Inverse for RecF<'a> {
    fn inverse(&self, p: f64) -> f64 {
        let v = match self.hint {
            HintMode::True => self.d.inv_f(p),
            HintMode::Noisy(seed, sc) => self.d.inv_f(p) + noise(seed, p.to_bits(), sc),
            HintMode::ConstF(v) => v,
            HintMode::ConstU(v) => v as f64,
        };
        self.inv.borrow_mut().push((p.to_bits(), 'f', v.to_bits()));
        v
    }
}

/// `Distribution<Value = usize>` (the `Binomial` path: `usize as Symbol` wraps)
#[derive(Clone, Copy)]
struct RecU<'a> {
    d: &'a Built,
    hint: HintMode,
    rec: &'a RecCdf,
    inv: &'a RecInv,
}
impl<'a> Distribution for RecU<'a> {
    type Value = usize;
    fn distribution(&self, x: f64) -> f64 {
        let c = self.d.cdf(x);
        self.rec.borrow_mut().push((x.to_bits(), c.to_bits()));
        c
    }
}
impl<'a> Inverse for RecU<'a> {
    fn inverse(&self, p: f64) -> usize {
        let v = match self.hint {
            HintMode::True => self.d.inv_u(p),
            HintMode::Noisy(seed, sc) => (self.d.inv_u(p) as f64 + noise(seed, p.to_bits(), sc)) as usize,
            HintMode::ConstF(v) => v as usize,
            HintMode::ConstU(v) => v,
        };
        self.inv.borrow_mut().push((p.to_bits(), 'u', v as u64));
        v
    }
}

#[derive(Clone, Debug)]
pub enum LOp {
    Full,
    Enc(i128),
    Dec(u128),
    Table,
    Sweep(u128, u128, u128),
}

#[derive(Clone, Debug)]
pub struct LeakySpec {
    pub sym: &'static str,
    pub b: u32,
    pub p: u32,
    pub min: i128,
    pub max: i128,
    pub base: Base,
    pub hint: HintMode,
}

pub fn sym_bits(sym: &str) -> Option<(u32, bool)> {
    Some(match sym {
        "u8" => (8, false),
        "i8" => (8, true),
        "u16" => (16, false),
        "i16" => (16, true),
        "u32" => (32, false),
        "i32" => (32, true),
        "u64" => (64, false),
        "i64" => (64, true),
        _ => return None,
    })
}
fn sym_static(sym: &str) -> Option<&'static str> {
    ["u8", "i8", "u16", "i16", "u32", "i32", "u64", "i64"].iter().copied().find(|s| *s == sym)
}
pub fn sym_range(sym: &str) -> (i128, i128) {
    let (bits, signed) = sym_bits(sym).unwrap();
    if signed {
        (-(1i128 << (bits - 1)), (1i128 << (bits - 1)) - 1)
    } else {
        (0, (1i128 << bits) - 1)
    }
}
pub fn sym_hex(sym: &str, v: i128) -> String {
    let (bits, _) = sym_bits(sym).unwrap();
    format!("{:x}", (v as u128) & ((1u128 << bits) - 1))
}
pub fn parse_sym(sym: &str, s: &str) -> Option<i128> {
    let (bits, signed) = sym_bits(sym)?;
    let v = parse_hex(s)?;
    if v >= 1u128 << bits {
        return None;
    }
    Some(if signed && v >= 1u128 << (bits - 1) { v as i128 - (1i128 << bits) } else { v as i128 })
}

fn show_rec(rec: &[(u64, u64)]) -> String {
    if rec.is_empty() {
        return "-".into();
    }
    let mut v = rec.to_vec();
    v.sort();
    v.dedup();
    v.iter().map(|(x, c)| format!("{:x}:{:x}", x, c)).collect::<Vec<_>>().join(",")
}

fn free_weight_of<T: Debug>(q: &T) -> u128 {
    let s = format!("{:?}", q);
    let i = s.find("free_weight: ").expect("Debug of LeakyQuantizer") + "free_weight: ".len();
    let rest = &s[i..];
    let end = rest.find(|c: char| c == ',' || c == ' ' || c == '}').unwrap_or(rest.len());
    rest[..end].parse::<f64>().expect("free_weight") as u128
}

/// Executes a leaky-quantizer line on the real code.  Returns the init output and, per op,
/// `(output, recorded-argument tokens for the protocol line)`; stops after a panic.
fn leaky_exec_d<S, Pr, const P: usize, D, MK>(spec: &LeakySpec, built: &Built, ops: &[Option<LOp>], mk: MK, rec: &RecCdf, inv: &RecInv) -> (String, Vec<(String, String)>)
where
    S: PrimInt + AsPrimitive<Pr> + AsPrimitive<usize> + Into<f64> + WrappingSub + WrappingAdd + Debug + 'static,
    Pr: BitArray + Into<f64>,
    f64: AsPrimitive<Pr>,
    D: Inverse + Copy,
    D::Value: AsPrimitive<S>,
    MK: Fn() -> D,
{
    let (tlo, thi) = sym_range(spec.sym);
    if spec.min < tlo || spec.min > thi || spec.max < tlo || spec.max > thi {
        return ("bad-op".into(), vec![]);
    }
    set_case(&leaky_line_text(spec, &[], &[]));
    let to_s = |v: i128| -> S { <S as num_traits::NumCast>::from(v).unwrap() };
    let quantizer = match guarded(|| LeakyQuantizer::<f64, S, Pr, P>::new(to_s(spec.min)..=to_s(spec.max))) {
        Ok(q) => q,
        Err(class) => return (class.into(), vec![]),
    };
    let free = free_weight_of(&quantizer);
    let init = format!("ok {:x}", free);
    let model = quantizer.quantize(mk());
    let bmax = (1u128 << Pr::BITS) - 1;
    let mut outs = Vec::new();
    for op in ops {
        rec.borrow_mut().clear();
        inv.borrow_mut().clear();
        let r = guarded(|| -> Option<(String, String)> {
            Some(match op.as_ref()? {
                LOp::Full => {
                    // the complete table of recorded values, and the certificate evaluated
                    // independently of the model: g(s) = (free * cdf(s - 0.5)) as Pr
                    let mut all = Vec::new();
                    let (mut mono, mut bound) = (true, true);
                    let mut prev = 0u128;
                    let mut s = spec.min + 1;
                    while s <= spec.max {
                        let x = s as f64 - 0.5;
                        let c = built.cdf(x);
                        all.push((x.to_bits(), c.to_bits()));
                        let g: Pr = (free as f64 * c).as_();
                        let g = to_u128(g);
                        mono &= prev <= g;
                        bound &= g <= free;
                        prev = g;
                        s += 1;
                    }
                    // inputs that are valid by construction: the harness asserts the constant, so
                    // that a certificate failing in the model is a mismatch; otherwise (directed
                    // invalid CDFs) the certificate is evaluated independently here
                    if spec.base.valid_by_construction() {
                        ("ok mono=1 bound=1".to_string(), show_rec(&all))
                    } else {
                        (format!("ok mono={} bound={}", b01(mono), b01(bound)), show_rec(&all))
                    }
                }
                LOp::Enc(s) => {
                    if *s < tlo || *s > thi {
                        return None;
                    }
                    let out = match model.left_cumulative_and_probability(to_s(*s)) {
                        None => "none".to_string(),
                        Some((c, p)) => format!("{:x} {:x}", to_u128(c), to_u128(p.get())),
                    };
                    (out, show_rec(&rec.borrow()))
                }
                LOp::Dec(q) => {
                    if *q > bmax {
                        return None;
                    }
                    let (s, c, p) = model.quantile_function(from_u128(*q));
                    let invtok = if spec.hint.is_const() {
                        "-".to_string()
                    } else {
                        let i = inv.borrow();
                        let (a, k, v) = i[0];
                        format!("{:x}:{}:{:x}", a, k, v)
                    };
                    (
                        format!("{} {:x} {:x}", sym_hex(spec.sym, s.to_i128().unwrap()), to_u128(c), to_u128(p.get())),
                        format!("{} {}", invtok, show_rec(&rec.borrow())),
                    )
                }
                LOp::Table => {
                    let t: Vec<String> = model
                        .symbol_table()
                        .map(|(s, c, p)| format!("{}:{:x}:{:x}", sym_hex(spec.sym, s.to_i128().unwrap()), to_u128(c), to_u128(p.get())))
                        .collect();
                    (if t.is_empty() { "-".into() } else { t.join(",") }, show_rec(&rec.borrow()))
                }
                LOp::Sweep(lo, hi, stride) => {
                    if *stride == 0 || *hi > bmax || !spec.hint.is_const() {
                        return None;
                    }
                    let mut q = *lo;
                    let mut cnt = 0u128;
                    let mut dg = DIGEST_INIT;
                    let mask = (1u128 << sym_bits(spec.sym).unwrap().0) - 1;
                    while q <= *hi {
                        let (s, c, p) = model.quantile_function(from_u128(q));
                        dg = digest_step(dg, (s.to_i128().unwrap() as u128) & mask);
                        dg = digest_step(dg, to_u128(c));
                        dg = digest_step(dg, to_u128(p.get()));
                        cnt += 1;
                        q += *stride;
                        rec.borrow_mut().clear();
                        inv.borrow_mut().clear();
                    }
                    (format!("{:x} {:x}", cnt, dg), String::new())
                }
            })
        });
        match r {
            Ok(Some(x)) => outs.push(x),
            Ok(None) => {
                outs.push(("bad-op".into(), String::new()));
                break;
            }
            Err(class) => {
                // the recorded values up to the panic are still needed by the model
                let invtok = if spec.hint.is_const() {
                    "-".to_string()
                } else {
                    inv.borrow().first().map(|(a, k, v)| format!("{:x}:{}:{:x}", a, k, v)).unwrap_or("-".into())
                };
                let toks = match op {
                    Some(LOp::Dec(_)) => format!("{} {}", invtok, show_rec(&rec.borrow())),
                    _ => show_rec(&rec.borrow()),
                };
                outs.push((class.into(), toks));
                break;
            }
        }
    }
    (init, outs)
}

fn leaky_exec<S, Pr, const P: usize>(spec: &LeakySpec, ops: &[Option<LOp>]) -> (String, Vec<(String, String)>)
where
    S: PrimInt + AsPrimitive<Pr> + AsPrimitive<usize> + Into<f64> + WrappingSub + WrappingAdd + Debug + 'static,
    Pr: BitArray + Into<f64>,
    f64: AsPrimitive<Pr> + AsPrimitive<S>,
    usize: AsPrimitive<S>,
{
    let built = spec.base.build();
    let rec: RecCdf = RefCell::new(Vec::new());
    let inv: RecInv = RefCell::new(Vec::new());
    if spec.base.is_u() {
        leaky_exec_d::<S, Pr, P, _, _>(spec, &built, ops, || RecU { d: &built, hint: spec.hint, rec: &rec, inv: &inv }, &rec, &inv)
    } else {
        leaky_exec_d::<S, Pr, P, _, _>(spec, &built, ops, || RecF { d: &built, hint: spec.hint, rec: &rec, inv: &inv }, &rec, &inv)
    }
}

macro_rules! leaky_dispatch {
    ([$(($S:ty, $ss:literal)),*], $bp:tt) => {
        fn dispatch_leaky(spec: &LeakySpec, ops: &[Option<LOp>]) -> Option<(String, Vec<(String, String)>)> {
            $( if spec.sym == $ss { return leaky_dispatch!(@bp $S, spec, ops, $bp); } )*
            None
        }
    };
    (@bp $S:ty, $spec:ident, $ops:ident, [$(($Pr:ty, $P:literal)),*]) => {{
        $( if $spec.b == <$Pr>::BITS as u32 && $spec.p == $P { return Some(leaky_exec::<$S, $Pr, $P>($spec, $ops)); } )*
        None
    }};
}
leaky_dispatch!(
    [(u8, "u8"), (i8, "i8"), (u16, "u16"), (i16, "i16"), (u32, "u32"), (i32, "i32")],
    [(u8, 1), (u8, 4), (u8, 8), (u16, 8), (u16, 12), (u16, 16), (u32, 12), (u32, 24), (u32, 32)]
);
pub const LEAKY_BP: &[(u32, &[u32])] = &[(8, &[1, 4, 8]), (16, &[8, 12, 16]), (32, &[12, 24, 32])];
pub const LEAKY_SYMS: &[&str] = &["u8", "i8", "u16", "i16", "u32", "i32"];

fn new_impl<S, Pr, const P: usize>(min: i128, max: i128) -> String
where
    S: PrimInt + AsPrimitive<Pr> + WrappingSub + WrappingAdd + Debug + 'static,
    Pr: BitArray + Into<f64>,
{
    let to_s = |v: i128| -> S { <S as num_traits::NumCast>::from(v).unwrap() };
    match guarded(|| LeakyQuantizer::<f64, S, Pr, P>::new(to_s(min)..=to_s(max))) {
        Ok(q) => format!("ok {:x}", free_weight_of(&q)),
        Err(class) => class.into(),
    }
}

macro_rules! new_dispatch {
    ([$(($S:ty, $ss:literal)),*], $bp:tt) => {
        fn dispatch_new(sym: &str, b: u32, p: u32, min: i128, max: i128) -> Option<String> {
            $( if sym == $ss { return new_dispatch!(@bp $S, b, p, min, max, $bp); } )*
            None
        }
    };
    (@bp $S:ty, $b:ident, $p:ident, $min:ident, $max:ident, [$(($Pr:ty, $P:literal)),*]) => {{
        $( if $b == <$Pr>::BITS as u32 && $p == $P { return Some(new_impl::<$S, $Pr, $P>($min, $max)); } )*
        None
    }};
}
new_dispatch!(
    [(u8, "u8"), (i8, "i8"), (u16, "u16"), (i16, "i16"), (u32, "u32"), (i32, "i32"), (u64, "u64"), (i64, "i64")],
    [(u8, 1), (u8, 4), (u8, 8), (u16, 8), (u16, 12), (u16, 16), (u32, 12), (u32, 24), (u32, 32)]
);
pub const NEW_SYMS: &[&str] = &["u8", "i8", "u16", "i16", "u32", "i32", "u64", "i64"];

fn parse_leaky_header(head: &[&str]) -> Option<LeakySpec> {
    // quant.leaky sym B P min max hint <dist…> <mode…>
    if head.len() < 9 {
        return None;
    }
    let sym = sym_static(head[1])?;
    let b = parse_hex(head[2])? as u32;
    let p = parse_hex(head[3])? as u32;
    let min = parse_sym(sym, head[4])?;
    let max = parse_sym(sym, head[5])?;
    let hint = head[6];
    let base = Base::parse(&head[7..10.min(head.len())])?;
    let mode = HintMode::parse(hint, &head[10.min(head.len())..])?;
    Some(LeakySpec { sym, b, p, min, max, base, hint: mode })
}

fn parse_lop(sym: &str, seg: &[&str]) -> Option<LOp> {
    Some(match seg {
        ["full", _rec] => LOp::Full,
        ["enc", s, _rec] => LOp::Enc(parse_sym(sym, s)?),
        ["dec", q, _inv, _rec] => LOp::Dec(parse_hex(q)?),
        ["table", _rec] => LOp::Table,
        ["sweep", lo, hi, st] => LOp::Sweep(parse_hex(lo)?, parse_hex(hi)?, parse_hex(st)?),
        _ => return None,
    })
}

fn leaky_line_text(spec: &LeakySpec, ops: &[LOp], toks: &[(String, String)]) -> String {
    let (h, mode) = spec.hint.tokens();
    let mut line = format!(
        "quant.leaky {} {:x} {:x} {} {} {} {} {}",
        spec.sym,
        spec.b,
        spec.p,
        sym_hex(spec.sym, spec.min),
        sym_hex(spec.sym, spec.max),
        h,
        spec.base.tokens(),
        mode
    );
    for (i, op) in ops.iter().enumerate() {
        let t = toks.get(i).map(|x| x.1.as_str()).unwrap_or("-");
        let t = if t.is_empty() { "-" } else { t };
        line.push_str(" | ");
        match op {
            LOp::Full => line.push_str(&format!("full {}", t)),
            LOp::Enc(s) => line.push_str(&format!("enc {} {}", sym_hex(spec.sym, *s), t)),
            LOp::Dec(q) => {
                let t = if t == "-" { "- -" } else { t };
                line.push_str(&format!("dec {:x} {}", q, t))
            }
            LOp::Table => line.push_str(&format!("table {}", t)),
            LOp::Sweep(lo, hi, st) => line.push_str(&format!("sweep {:x} {:x} {:x}", lo, hi, st)),
        }
    }
    line
}

// ---------------------------------------------------------------------------------------
// run

pub fn run(segs: &[Vec<&str>]) -> String {
    let head = &segs[0];
    let r: Option<String> = (|| match head.as_slice() {
        ["quant.fast", ctor, f, b, p, norm, tbl] => {
            let (b, p) = (parse_hex(b)? as u32, parse_hex(p)? as u32);
            let norm = parse_opt_hex(norm)?;
            let tbl = parse_list(tbl)?;
            if p == 0 || p > b {
                return None;
            }
            let ops: Vec<Option<LazyOp>> = segs[1..].iter().map(|s| parse_lazy_op(s)).collect();
            match *ctor {
                "lkc" | "lknc" => dispatch_fast_lookup(f, b, p, ctor, &tbl, norm, &ops).or(Some("unsupported".into())),
                _ => dispatch_fast(f, b, p, ctor, &tbl, norm, &ops).or(Some("unsupported".into())),
            }
        }
        ["quant.perfect", f, b, p, tbl, w] if segs.len() == 1 => {
            let (b, p) = (parse_hex(b)? as u32, parse_hex(p)? as u32);
            if p == 0 || p > b {
                return None;
            }
            dispatch_perfect(f, b, p, &parse_list(tbl)?, &parse_list(w)?).or(Some("unsupported".into()))
        }
        ["quant.lazy", f, b, p, norm, tbl] => {
            let (b, p) = (parse_hex(b)? as u32, parse_hex(p)? as u32);
            if p == 0 || p > b {
                return None;
            }
            let ops: Vec<Option<LazyOp>> = segs[1..].iter().map(|s| parse_lazy_op(s)).collect();
            dispatch_lazy(f, b, p, &parse_list(tbl)?, parse_opt_hex(norm)?, &ops).or(Some("unsupported".into()))
        }
        ["quant.sfop", f, a, b, n] if segs.len() == 1 => {
            let (a, b, n) = (parse_hex(a)?, parse_hex(b)?, parse_hex(n)?);
            if n > u64::MAX as u128 {
                return None;
            }
            sfop(f, a, b, n as u64)
        }
        ["quant.new", sym, b, p, mn, mx] if segs.len() == 1 => {
            let (b, p) = (parse_hex(b)? as u32, parse_hex(p)? as u32);
            if p == 0 || p > b {
                return None;
            }
            dispatch_new(sym, b, p, parse_sym(sym, mn)?, parse_sym(sym, mx)?).or(Some("unsupported".into()))
        }
        h if h.first() == Some(&"quant.leaky") => {
            let spec = parse_leaky_header(h)?;
            if spec.p == 0 || spec.p > spec.b {
                return None;
            }
            let ops: Vec<Option<LOp>> = segs[1..].iter().map(|s| parse_lop(spec.sym, s)).collect();
            let (init, outs) = dispatch_leaky(&spec, &ops)?;
            let mut v = vec![init];
            v.extend(outs.into_iter().map(|x| x.0));
            Some(v.join(" | "))
        }
        _ => None,
    })();
    r.unwrap_or_else(|| "bad-op".into())
}

/// one sample of every float operation the `…_fast` constructors use, on the hardware floats:
/// `add mul div le u8 u16 u32 u64 ofnat` (bit patterns, `nan` for any NaN).  The Lean side answers
/// with the software IEEE model (`CV.Model.SoftFloat`).
fn sfop(f: &str, a: u128, b: u128, n: u64) -> Option<String> {
    use std::hint::black_box as bb;
    match f {
        "f32" => {
            if a > u32::MAX as u128 || b > u32::MAX as u128 {
                return None;
            }
            let (x, y) = (bb(f32::from_bits(a as u32)), bb(f32::from_bits(b as u32)));
            let fl = |r: f32| if r.is_nan() { "nan".to_string() } else { format!("{:x}", r.to_bits()) };
            Some(format!(
                "{} {} {} {} {:x} {:x} {:x} {:x} {}",
                fl(x + y), fl(x * y), fl(x / y), (x <= y) as u8, x as u8, x as u16, x as u32, x as u64, fl(bb(n) as f32)
            ))
        }
        "f64" => {
            if a > u64::MAX as u128 || b > u64::MAX as u128 {
                return None;
            }
            let (x, y) = (bb(f64::from_bits(a as u64)), bb(f64::from_bits(b as u64)));
            let fl = |r: f64| if r.is_nan() { "nan".to_string() } else { format!("{:x}", r.to_bits()) };
            Some(format!(
                "{} {} {} {} {:x} {:x} {:x} {:x} {}",
                fl(x + y), fl(x * y), fl(x / y), (x <= y) as u8, x as u8, x as u16, x as u32, x as u64, fl(bb(n) as f64)
            ))
        }
        _ => None,
    }
}

/// a bit pattern of a float of `w` bits: uniform, positive, tiny / subnormal, near one, zero, near
/// the largest finite value, infinity, around the smallest normal, NaN
fn gen_float_bits(rng: &mut Rng, is32: bool) -> u128 {
    let r = rng.next() as u128;
    let (w, mant, one) = if is32 { (32u32, 23u32, 0x3f80_0000u128) } else { (64, 52, 0x3ff0_0000_0000_0000u128) };
    let full = if is32 { r & 0xffff_ffff } else { r };
    let pos = full & ((1u128 << (w - 1)) - 1);
    let maxfin = ((((1u128 << (w - 1 - mant)) - 2) << mant) | ((1u128 << mant) - 1)) as u128;
    match rng.next() % 16 {
        0..=4 => full,
        5 | 6 => pos,
        7 | 8 => pos & ((1u128 << (mant + 2)) - 1),
        9 | 10 => one + (full & ((1u128 << (mant + 2)) - 1)),
        11 => (full & 1) << (w - 1),
        12 => maxfin - (full & 3),
        13 => ((1u128 << (w - 1 - mant)) - 1) << mant | ((full & 1) << (w - 1)),
        14 => (1u128 << mant) - 2 + (full & 3),
        _ => ((((1u128 << (w - 1 - mant)) - 1) << mant) | 1 | (full & ((1u128 << mant) - 1))) as u128,
    }
}

fn gen_sfop_line(rng: &mut Rng) -> String {
    let is32 = rng.next() % 2 == 0;
    let a = gen_float_bits(rng, is32);
    // related operands (same exponent, neighbours, negation) exercise cancellation and ties
    let b = match rng.next() % 6 {
        0 => a ^ (1u128 << if is32 { 31 } else { 63 }),
        1 => a.wrapping_add(1) & if is32 { 0xffff_ffff } else { u64::MAX as u128 },
        2 => (a & !((1u128 << if is32 { 23 } else { 52 }) - 1)) | (gen_float_bits(rng, is32) & ((1u128 << if is32 { 23 } else { 52 }) - 1)),
        _ => gen_float_bits(rng, is32),
    };
    let n = match rng.next() % 4 {
        0 => rng.next(),
        1 => rng.next() >> (rng.next() % 64),
        2 => (1u64 << (rng.next() % 64)).wrapping_add(rng.next() % 5).wrapping_sub(2),
        _ => u64::MAX - (rng.next() % 4096),
    };
    format!("quant.sfop {} {:x} {:x} {:x}", if is32 { "f32" } else { "f64" }, a, b, n)
}

// ---------------------------------------------------------------------------------------
// generators

fn pick_bp(rng: &mut Rng, bps: &[(u32, &[u32])]) -> (u32, u32) {
    let (b, ps) = rng.pick(bps);
    (*b, *rng.pick(ps))
}

/// a random float table (as `f64` values; converted to the target type by the caller).
/// Families: uniform, huge dynamic range, zeros, denormals, big head + tiny tail, …
pub fn gen_weights(rng: &mut Rng, n: usize, is32: bool) -> Vec<f64> {
    let fam = rng.next() % 12;
    let tiny = if is32 { f32::MIN_POSITIVE as f64 } else { f64::MIN_POSITIVE };
    let exp_range: i32 = if is32 { 120 } else { 1000 };
    let unit = |r: &mut Rng| (r.next() >> 11) as f64 / (1u64 << 53) as f64;
    let mut v: Vec<f64> = (0..n)
        .map(|i| match fam {
            0 | 1 => unit(rng),
            2 => unit(rng) * 100.0,
            3 => {
                // huge dynamic range
                let e = (rng.next() % (2 * exp_range as u64)) as i32 - exp_range;
                (1.0 + unit(rng)) * 2f64.powi(e)
            }
            4 => {
                if rng.chance(1, 2) {
                    0.0
                } else {
                    unit(rng)
                }
            }
            5 => tiny * (rng.next() % 8) as f64 / 4.0, // denormals and zeros
            6 => {
                // big head, tail below float resolution (the D4 family)
                if i < n / 2 {
                    1.0 + 100.0 * unit(rng)
                } else if rng.chance(1, 2) {
                    0.0
                } else {
                    unit(rng) * 1e-9
                }
            }
            7 => {
                // geometric decay
                0.5f64.powi(i as i32 * (1 + (rng.0 % 7) as i32))
            }
            8 => 1.0, // exactly uniform
            9 => {
                if i == (rng.0 % n.max(1) as u64) as usize {
                    1e30
                } else {
                    unit(rng) * 1e-30
                }
            }
            10 => (rng.next() % 4) as f64, // small integers incl. zero
            _ => {
                let e = (rng.next() % 60) as i32 - 30;
                unit(rng) * 2f64.powi(e)
            }
        })
        .collect();
    // tail zero (D4 reproducer shape)
    if n > 0 && rng.chance(1, 6) {
        *v.last_mut().unwrap() = 0.0;
    }
    v
}

/// occasionally corrupt a table with an invalid entry
fn corrupt(rng: &mut Rng, v: &mut Vec<f64>) -> bool {
    if v.is_empty() || !rng.chance(1, 7) {
        return false;
    }
    let i = (rng.next() % v.len() as u64) as usize;
    v[i] = match rng.next() % 8 {
        0 => -v[i].abs().max(0.5),
        1 => f64::NAN,
        2 => f64::INFINITY,
        3 => f64::NEG_INFINITY,
        4 => -0.0,
        5 => -1e-300,
        6 => -f64::MIN_POSITIVE / 2.0,
        _ => -1.0,
    };
    true
}

fn to_bits_list(v: &[f64], is32: bool) -> Vec<u128> {
    v.iter().map(|&x| if is32 { (x as f32).to_bits() as u128 } else { x.to_bits() as u128 }).collect()
}

fn gen_len(rng: &mut Rng, p: u32) -> usize {
    let cap = if p >= 20 { 1usize << 20 } else { 1usize << p };
    match rng.next() % 16 {
        0 => 0,
        1 => 1,
        2 => 2,
        3 if p <= 8 => cap.saturating_sub(1),     // 2^P - 1: rejected
        4 if p <= 8 => cap.saturating_sub(2),     // 2^P - 2: the largest accepted
        5 if p <= 8 => cap,                       // 2^P
        6 if p <= 8 => cap + 1,
        7 => 2 + (rng.next() % 200) as usize,
        _ => 2 + (rng.next() % 12) as usize,
    }
}

fn gen_norm(rng: &mut Rng, v: &[f64], is32: bool) -> String {
    let sum32 = v.iter().map(|&x| x as f32).sum::<f32>();
    let sum64 = v.iter().sum::<f64>();
    let bits = |x: f64| -> String {
        if is32 {
            format!("{:x}", (x as f32).to_bits())
        } else {
            format!("{:x}", x.to_bits())
        }
    };
    let exact = if is32 { format!("{:x}", sum32.to_bits()) } else { format!("{:x}", sum64.to_bits()) };
    match rng.next() % 24 {
        0..=13 => "-".into(),
        14..=16 => exact,
        17 => bits(sum64 * 0.999),  // slightly too small: overshoot, clamped
        18 => bits(sum64 * 1.5),
        19 => bits(sum64 * 1e-3),   // far too small: everything saturates
        20 => bits(0.0),
        21 => bits(*rng.pick(&[f64::NAN, f64::INFINITY, -1.0, f64::NEG_INFINITY])),
        22 => bits(if is32 { 1e-45 } else { 5e-324 }), // denormal
        _ => bits(if is32 { 1e-37 } else { 1e-300 }),   // tiny normal: scale overflows to inf
    }
}

fn gen_fast_line(rng: &mut Rng) -> String {
    let is32 = rng.chance(1, 2);
    let lookup = rng.chance(1, 6);
    let (b, p) = if lookup { pick_bp(rng, LOOKUP_BP) } else { pick_bp(rng, FP_BP) };
    let ctor = if lookup { *rng.pick(&["lkc", "lknc"]) } else { *rng.pick(&["cont", "cont", "ncenc", "ncdec"]) };
    let n = gen_len(rng, p);
    let mut v = gen_weights(rng, n, is32);
    corrupt(rng, &mut v);
    let norm = gen_norm(rng, &v, is32);
    let mut line = format!("quant.fast {} {} {:x} {:x} {} {}", ctor, if is32 { "f32" } else { "f64" }, b, p, norm, show_list(to_bits_list(&v, is32)));
    // decoder queries: for the lookup models this is the only way the lookup *table* is compared
    if ctor != "ncenc" && (lookup || rng.chance(1, 2)) {
        let qmax = pow2(p) - 1;
        for _ in 0..rng.next() % 4 {
            let q = match rng.next() % 4 {
                0 => 0,
                1 => qmax,
                2 => rng.below(n as u128 + 2).min(qmax),
                _ => rng.below(qmax + 1),
            };
            line.push_str(&format!(" | dec {:x}", q));
        }
        if p <= 12 {
            line.push_str(&format!(" | sweep 0 {:x} 1", qmax));
        } else {
            let stride = (qmax / 1021).max(1);
            line.push_str(&format!(" | sweep {:x} {:x} {:x}", rng.below(stride), qmax, stride));
        }
    }
    line
}

fn gen_perfect_line(rng: &mut Rng) -> String {
    let is32 = rng.chance(1, 2);
    let (b, p) = pick_bp(rng, PERFECT_BP);
    let n = match rng.next() % 10 {
        0 => 0,
        1 => 1,
        2 if p <= 8 => (1usize << p) - (rng.next() % 3) as usize,
        _ => 2 + (rng.next() % 10) as usize,
    };
    let n = n.min(if p <= 3 { 7 } else { 300 });
    let mut v = gen_weights(rng, n, is32);
    corrupt(rng, &mut v);
    let tbl = to_bits_list(&v, is32);
    let f = if is32 { "f32" } else { "f64" };
    // the generator observes the implementation's output; the model only checks its contract
    let w = guarded(|| dispatch_perfect_weights(f, b, p, &tbl)).ok().flatten().flatten().unwrap_or_default();
    format!("quant.perfect {} {:x} {:x} {} {}", f, b, p, show_list(tbl), show_list(w))
}

fn gen_lazy_line(rng: &mut Rng, sweep: bool) -> String {
    let is32 = rng.chance(1, 2);
    let (b, p) = pick_bp(rng, FP_BP);
    let n = gen_len(rng, p).min(if sweep { 40 } else { 300 });
    let mut v = gen_weights(rng, n, is32);
    corrupt(rng, &mut v);
    let norm = gen_norm(rng, &v, is32);
    let mut line = format!("quant.lazy {} {:x} {:x} {} {}", if is32 { "f32" } else { "f64" }, b, p, norm, show_list(to_bits_list(&v, is32)));
    let total = pow2(p);
    let qmax = total.wrapping_sub(1) & (pow2(b).wrapping_sub(1));
    let qmax = if p == b { pow2(b).wrapping_sub(1) } else { total - 1 };
    line.push_str(" | table");
    let k = 3 + rng.next() % 8;
    for _ in 0..k {
        match rng.next() % 8 {
            0..=2 => {
                let s = match rng.next() % 8 {
                    0 => 0,
                    1 => n.saturating_sub(1) as u128,
                    2 => n as u128,
                    3 => n as u128 + 1,
                    4 => *rng.pick(&[0xffffu128, 0x10000, 0x10001, 0xffff_ffff, 0x1_0000_0000, 0x1_0000_0001, u64::MAX as u128]),
                    _ => rng.below(n.max(1) as u128),
                };
                line.push_str(&format!(" | enc {:x}", s));
            }
            _ => {
                let q = match rng.next() % 8 {
                    0 => 0,
                    1 => qmax,
                    2 => qmax.saturating_sub(1),
                    3 => rng.below(n as u128 + 2).min(qmax),
                    4 => qmax - rng.below(n as u128 + 2).min(qmax),
                    _ => rng.below(qmax + 1),
                };
                line.push_str(&format!(" | dec {:x}", q));
            }
        }
    }
    // TB-F2 is a statement about all quantiles: sweep them all when P <= 12 (and the table is
    // small enough for the model's O(n) decoder), a stratified sample otherwise
    if p <= 12 && (sweep || n <= 64) {
        line.push_str(&format!(" | sweep 0 {:x} 1", qmax));
    } else {
        let stride = (qmax / if sweep { 997 } else { 251 }).max(1);
        line.push_str(&format!(" | sweep {:x} {:x} {:x}", rng.below(stride), qmax, stride));
    }
    line
}

fn gen_new_line(rng: &mut Rng) -> String {
    let sym = *rng.pick(NEW_SYMS);
    let (b, p) = pick_bp(rng, LEAKY_BP);
    let (lo, hi) = sym_range(sym);
    let span = (hi - lo) as u128;
    let total = pow2(p);
    let size_m1: u128 = match rng.next() % 12 {
        0 => 0,
        1 => 1,
        2 => total - 2,
        3 => total - 1,
        4 => total,
        5 => total + 1,
        6 => pow2(b) + rng.below(8),         // D10: truncates to a small number
        7 => pow2(b) * 2 + rng.below(8),
        8 => span,                            // the full type
        9 => span / 2 + 1 + rng.below(4),     // signed: spans more than half the type
        10 => pow2(b) - 1,
        _ => rng.below(total + 2),
    };
    let size_m1 = size_m1.min(span);
    let min = match rng.next() % 4 {
        0 => lo,
        1 => hi - size_m1 as i128,
        _ => lo + rng.below(span - size_m1 + 1) as i128,
    };
    let (min, max) = if rng.chance(1, 16) { (min + size_m1 as i128, min) } else { (min, min + size_m1 as i128) };
    format!("quant.new {} {:x} {:x} {} {}", sym, b, p, sym_hex(sym, min), sym_hex(sym, max))
}

/// a quantised model: distribution family × scale over hundreds of orders of magnitude ×
/// support cut on either side × symbol type × (B, P) × hint mode
pub fn gen_leaky_spec(rng: &mut Rng, max_support: u128) -> LeakySpec {
    let sym = *rng.pick(LEAKY_SYMS);
    let (b, p) = pick_bp(rng, LEAKY_BP);
    let (lo, hi) = sym_range(sym);
    let span = (hi - lo) as u128;
    let total = pow2(p);
    let size_m1 = match rng.next() % 8 {
        0 => 1,
        1 => total - 1,
        2 => span,
        3 => span / 2 + 1 + rng.below(5),
        _ => 1 + rng.below(300),
    }
    .min(total - 1)
    .min(span)
    .min(max_support.max(2) - 1)
    .max(1);
    let min = match rng.next() % 5 {
        0 => lo,
        1 => hi - size_m1 as i128,
        2 if lo < 0 => (-(size_m1 as i128) / 2).max(lo).min(hi - size_m1 as i128),
        _ => lo + rng.below(span - size_m1 + 1) as i128,
    };
    let max = min + size_m1 as i128;
    let unit = |r: &mut Rng| (r.next() >> 11) as f64 / (1u64 << 53) as f64;
    // location: inside, at an edge, half-integers, or far outside the support
    let loc = match rng.next() % 8 {
        0 => min as f64 - 0.5,
        1 => max as f64 + 0.5,
        2 => min as f64 - 1e3 * unit(rng),
        3 => max as f64 + 1e3 * unit(rng),
        4 => (min as f64 + max as f64) / 2.0 + 0.5,
        5 => *rng.pick(&[-1e9, 1e9, -1e300, 1e300, 0.0]),
        _ => min as f64 + unit(rng) * size_m1 as f64,
    };
    // scale over hundreds of orders of magnitude
    let scale = match rng.next() % 6 {
        0 => 10f64.powi((rng.next() % 600) as i32 - 300),
        1 => 1e-40,
        2 => unit(rng) * 3.0 + 0.01,
        3 => size_m1 as f64 * (0.05 + unit(rng)),
        4 => 1e6 * (1.0 + unit(rng)),
        _ => 0.1 + 10.0 * unit(rng),
    };
    let scale = if scale > 0.0 && scale.is_finite() { scale } else { 1.0 };
    let base = match rng.next() % 9 {
        0 | 1 => Base::Gauss(loc, scale),
        2 | 3 => Base::Cauchy(loc, scale),
        4 | 5 => Base::Laplace(loc, scale),
        6 | 7 => {
            // step-shaped CDF with breakpoints at arbitrary places
            let k = 1 + (rng.next() % 6) as usize;
            let mut xs: Vec<f64> = (0..k)
                .map(|_| match rng.next() % 4 {
                    0 => (min + rng.below(size_m1 + 1) as i128) as f64 - 0.5,
                    1 => (min + rng.below(size_m1 + 1) as i128) as f64,
                    2 => min as f64 - 10.0 * unit(rng),
                    _ => min as f64 + unit(rng) * (size_m1 as f64 + 10.0),
                })
                .collect();
            xs.sort_by(|a, b| a.partial_cmp(b).unwrap());
            let mut cs: Vec<f64> = (0..=k)
                .map(|_| match rng.next() % 5 {
                    0 => 0.0,
                    1 => 1.0,
                    _ => unit(rng),
                })
                .collect();
            cs.sort_by(|a, b| a.partial_cmp(b).unwrap());
            Base::Step(xs, cs)
        }
        _ => {
            if min >= 0 && max <= 100_000 {
                let n = (max as usize).max(1);
                let pp = *rng.pick(&[0.1, 0.4, 0.9, 0.5]);
                let n = if n >= 1000 { n } else { n };
                Base::Binom(n, if n >= 1000 { pp } else { *rng.pick(&[1e-30, 1e-10, 0.1, 0.4, 0.9]) })
            } else {
                Base::Gauss(loc, scale)
            }
        }
    };
    let hint = match rng.next() % 12 {
        0..=3 => HintMode::True,
        4 | 5 => HintMode::Noisy(rng.next(), *rng.pick(&[0.6, 3.0, 100.0, 1e5, 1e12])),
        _ => {
            if base.is_u() {
                HintMode::ConstU(match rng.next() % 6 {
                    0 => 0,
                    1 => usize::MAX,
                    2 => max as usize,
                    3 => 1usize << 40,
                    4 => (1usize << 31) + 5,
                    _ => (rng.next() % 100_000) as usize,
                })
            } else {
                HintMode::ConstF(match rng.next() % 10 {
                    0 => 1e9,
                    1 => -1e9,
                    2 => f64::NAN,
                    3 => f64::INFINITY,
                    4 => f64::NEG_INFINITY,
                    5 => min as f64,
                    6 => max as f64,
                    7 => (min as f64 + max as f64) / 2.0,
                    8 => 0.0,
                    _ => lo as f64 + unit(rng) * span as f64,
                })
            }
        }
    };
    LeakySpec { sym, b, p, min, max, base, hint }
}

fn gen_leaky_line(rng: &mut Rng, sweep: bool) -> Option<String> {
    let mut spec = gen_leaky_spec(rng, if sweep { 300 } else { 1 << 20 });
    if sweep && !spec.hint.is_const() {
        spec.hint = if spec.base.is_u() { HintMode::ConstU((rng.next() % 400) as usize) } else { HintMode::ConstF(*rng.pick(&[1e9, -1e9, f64::NAN, 0.0, 77.0])) };
    }
    let size = (spec.max - spec.min) as u128 + 1;
    let total = pow2(spec.p);
    let qmax = total - 1;
    let (tlo, thi) = sym_range(spec.sym);
    let mut ops: Vec<LOp> = Vec::new();
    let small = size <= 600;
    if size <= 3000 {
        // certificate evaluation (`GOk` over the whole support) on every line where it is affordable
        ops.push(LOp::Full);
    }
    if small && rng.chance(1, 2) {
        ops.push(LOp::Table);
    }
    // first pass: find some cumulative boundaries so that quantiles can be boundary-directed
    let k = 2 + rng.next() % 6;
    for _ in 0..k {
        match rng.next() % 8 {
            0..=2 => {
                let s = match rng.next() % 8 {
                    0 => spec.min,
                    1 => spec.max,
                    2 => spec.min - 1,
                    3 => spec.max + 1,
                    4 => tlo,
                    5 => thi,
                    _ => spec.min + rng.below(size) as i128,
                };
                ops.push(LOp::Enc(s.clamp(tlo, thi)));
            }
            _ => {
                let q = match rng.next() % 8 {
                    0 => 0,
                    1 => qmax,
                    2 => qmax / 2,
                    3 => rng.below(size.min(qmax) + 1),
                    4 => qmax - rng.below(size.min(qmax) + 1),
                    _ => rng.below(qmax + 1),
                };
                ops.push(LOp::Dec(q));
            }
        }
    }
    if sweep {
        if spec.p <= 12 {
            ops.push(LOp::Sweep(0, qmax, 1));
        } else {
            let stride = (qmax / 499).max(1);
            ops.push(LOp::Sweep(rng.below(stride), qmax, stride));
        }
    }
    let oo: Vec<Option<LOp>> = ops.iter().cloned().map(Some).collect();
    let (init, outs) = dispatch_leaky(&spec, &oo)?;
    // boundary-directed quantiles: decode at c-1, c, c+p-1, c+p of an encoded symbol
    let mut extra: Vec<LOp> = Vec::new();
    for (op, (out, _)) in ops.iter().zip(outs.iter()) {
        if let LOp::Enc(_) = op {
            let parts: Vec<&str> = out.split(' ').collect();
            if parts.len() == 2 {
                if let (Some(c), Some(pr)) = (parse_hex(parts[0]), parse_hex(parts[1])) {
                    for q in [c.wrapping_sub(1), c, c + pr - 1, c + pr] {
                        if q <= qmax && rng.chance(1, 2) {
                            extra.push(LOp::Dec(q));
                        }
                    }
                }
            }
        }
    }
    if extra.is_empty() || outs.len() < ops.len() {
        return Some(leaky_line_text(&spec, &ops[..outs.len().min(ops.len())], &outs));
    }
    let mut all = ops.clone();
    // keep a trailing sweep last
    let tail = if sweep { all.pop() } else { None };
    all.extend(extra);
    if let Some(t) = tail {
        all.push(t);
    }
    let oo: Vec<Option<LOp>> = all.iter().cloned().map(Some).collect();
    let (_, outs) = dispatch_leaky(&spec, &oo)?;
    Some(leaky_line_text(&spec, &all[..outs.len().min(all.len())], &outs))
}

/// a *slightly invalid* step-shaped CDF on a tiny support: decreasing by about one quantum
/// between neighbouring symbols, leaving `[0, 1]`, NaN, or far outside — a `Distribution` is a
/// safe trait, so the models must answer with the documented panics, never with UB (D25, D27)
pub fn gen_badcdf_spec(rng: &mut Rng) -> LeakySpec {
    let sym = *rng.pick(&["u8", "i8", "u16", "i16", "u32", "i32"]);
    let (b, p) = pick_bp(rng, LEAKY_BP);
    let (lo, hi) = sym_range(sym);
    let total = pow2(p);
    let size_m1 = (1 + rng.below(9)).min(total - 1) as i128;
    let min = match rng.next() % 3 {
        0 => lo,
        1 => hi - size_m1,
        _ => (if lo < 0 { -2 } else { 3 }).max(lo).min(hi - size_m1),
    };
    let max = min + size_m1;
    let free = (total - 1 - size_m1 as u128) as f64;
    let quantum = if free > 0.0 { 1.0 / free } else { 0.25 };
    let unit = |r: &mut Rng| (r.next() >> 11) as f64 / (1u64 << 53) as f64;
    // breakpoints at every half-integer of the support; levels start from a valid CDF
    let xs: Vec<f64> = (0..size_m1).map(|i| (min + i) as f64 + 0.5).collect();
    let mut cs: Vec<f64> = (0..=size_m1).map(|_| unit(rng)).collect();
    cs.sort_by(|a, b| a.partial_cmp(b).unwrap());
    cs[0] = 0.0;
    let k = cs.len();
    for _ in 0..1 + rng.next() % 2 {
        let i = 1 + (rng.next() % (k as u64 - 1).max(1)) as usize % (k - 1).max(1);
        let i = i.min(k - 1);
        match rng.next() % 9 {
            0 => cs[i] = cs[i - 1] - quantum * (0.6 + unit(rng)), // one quantum down
            1 => cs[i] = cs[i - 1] - quantum * 3.0,
            2 => cs[i] = 1.0 + quantum * (1.0 + 3.0 * unit(rng)), // just above 1
            3 => cs[i] = 2.0,                                      // wraps the first right cumulative (D27)
            4 => cs[i] = 1e9,
            5 => cs[i] = -quantum,
            6 => cs[i] = f64::NAN,
            7 => cs[i] = *rng.pick(&[f64::INFINITY, f64::NEG_INFINITY, -1e9]),
            _ => cs.swap(i, i - 1),
        }
    }
    if rng.chance(1, 4) {
        cs[1.min(k - 1)] = *rng.pick(&[2.0, 1e9, 1.0 + quantum]); // the D27 shape: cdf(min + 0.5) > 1
    }
    let hint = HintMode::ConstF(match rng.next() % 5 {
        0 => min as f64,
        1 => max as f64,
        2 => 1e9,
        3 => -1e9,
        _ => (min + rng.below(size_m1 as u128 + 1) as i128) as f64,
    });
    LeakySpec { sym, b, p, min, max, base: Base::Step(xs, cs), hint }
}

/// the protocol lines of one invalid-CDF spec (each line stops at its first panic, so the
/// operations are spread over several lines)
fn badcdf_lines(rng: &mut Rng, spec: &LeakySpec) -> Vec<String> {
    let qmax = pow2(spec.p) - 1;
    let syms: Vec<i128> = (spec.min..=spec.max).collect();
    let mut plans: Vec<Vec<LOp>> = vec![vec![LOp::Full, LOp::Table], vec![LOp::Full, if spec.p <= 8 { LOp::Sweep(0, qmax, 1) } else { let st = (qmax / 509).max(1); LOp::Sweep(rng.below(st), qmax, st) }]];
    let mut e1 = vec![LOp::Full];
    e1.extend(syms.iter().map(|&s| LOp::Enc(s)));
    let mut e2 = vec![LOp::Full];
    e2.extend(syms.iter().rev().map(|&s| LOp::Enc(s)));
    plans.push(e1);
    plans.push(e2);
    let mut d = vec![LOp::Full];
    for _ in 0..4 {
        d.push(LOp::Dec(match rng.next() % 4 {
            0 => 0,
            1 => qmax,
            2 => rng.below(12).min(qmax),
            _ => rng.below(qmax + 1),
        }));
    }
    plans.push(d);
    let mut out = Vec::new();
    for ops in plans {
        let oo: Vec<Option<LOp>> = ops.iter().cloned().map(Some).collect();
        if let Some((_, outs)) = dispatch_leaky(spec, &oo) {
            out.push(leaky_line_text(spec, &ops[..outs.len().min(ops.len())], &outs));
        }
    }
    out
}

/// C20 for invalid CDFs: every operation either answers or panics cleanly — the process
/// survives (std's unsafe-precondition checks would abort it)
fn oracle_badcdf(rng: &mut Rng, rep: &mut Report) {
    let spec = gen_badcdf_spec(rng);
    let qmax = pow2(spec.p) - 1;
    let mut ops: Vec<LOp> = vec![LOp::Full, LOp::Table];
    ops.extend((spec.min..=spec.max).map(LOp::Enc));
    let hints = [spec.hint, HintMode::ConstF(spec.min as f64), HintMode::ConstF(spec.max as f64), HintMode::ConstF(f64::NAN)];
    for h in hints {
        let mut sp = spec.clone();
        sp.hint = h;
        let mut all: Vec<LOp> = if matches!(h, HintMode::ConstF(x) if x.is_nan()) { ops.clone() } else { vec![] };
        let step = (qmax / 257).max(1);
        let mut q = 0;
        while q <= qmax {
            all.push(LOp::Dec(q));
            q += step;
        }
        all.push(LOp::Dec(qmax));
        // one op per call: a panic ends a protocol history, the oracle wants every op exercised
        for op in all {
            let r = dispatch_leaky(&sp, &[Some(op.clone())]);
            rep.eval("C20");
            match r {
                Some((_, outs)) => {
                    let o = outs.first().map(|x| x.0.as_str()).unwrap_or("");
                    rep.count(if o.starts_with("panic") { "badcdf.panic" } else { "badcdf.answer" });
                    if o == "panic:shift" {
                        rep.fail("C20", format!("{} # {:?} -> {}", leaky_line_text(&sp, &[], &[]), op, o));
                    }
                }
                None => rep.fail("C20", format!("{} # not dispatched", leaky_line_text(&sp, &[], &[]))),
            }
        }
    }
}

pub fn gen(rng: &mut Rng, tier: &str, out: &mut Vec<String>) {
    let k = if tier == "thorough" { 20 } else { 1 };
    // documented / design reproducers first
    out.push("quant.fast cont f32 20 18 - 428d2ec2,3ee93b54,42466cd6,3ee98848,0".into()); // D4, P=24
    out.push("quant.fast cont f32 20 1f - 428d2ec2,3ee93b54,42466cd6,3ee98848,0".into()); // D4, P=31
    out.push("quant.fast cont f32 20 20 - 428d2ec2,3ee93b54,42466cd6,3ee98848,0".into()); // D4, P=32
    out.push("quant.lazy f32 20 18 - 428d2ec2,3ee93b54,42466cd6,3ee98848,0 | table | dec ffffff | dec fffffe | enc 4".into());
    out.push("quant.fast cont f64 20 18 - 3ff0000000000000,bfe0000000000000,3ff0000000000000".into()); // D14
    out.push("quant.fast cont f64 20 18 4000000000000000 3ff0000000000000,7ff8000000000000,3ff0000000000000".into()); // D14 NaN
    out.push("quant.new i32 10 c 0 10005".into()); // D10
    out.push("quant.new i8 10 c 80 7e".into()); // signed, narrower than Probability, spans > half
    // D18 / D19 / D20 (`…_perfect`): negative entry after a large one; tiny normalisation
    out.push("quant.perfect f64 20 18 4008000000000000,bff0000000000000,0 -".into());
    out.push("quant.perfect f64 20 18 15924bb8b6ea1,0,e6186d17b49c -".into());
    // D1 / D17: quantised Gaussian on -5..=5, iterated symbol table vs direct queries
    let fixed = |spec: LeakySpec, ops: Vec<LOp>| -> Option<String> {
        let oo: Vec<Option<LOp>> = ops.iter().cloned().map(Some).collect();
        let (_, outs) = dispatch_leaky(&spec, &oo)?;
        Some(leaky_line_text(&spec, &ops[..outs.len().min(ops.len())], &outs))
    };
    let d1 = LeakySpec { sym: "i32", b: 32, p: 24, min: -5, max: 5, base: Base::Gauss(0.0, 1.0), hint: HintMode::True };
    out.extend(fixed(d1, vec![LOp::Full, LOp::Table, LOp::Enc(-4), LOp::Enc(-5), LOp::Enc(5), LOp::Enc(6), LOp::Dec(58), LOp::Dec(57)]));
    // signed narrow symbol type × support wider than Symbol::MAX: iterated table vs direct queries
    for spec in wide_signed_specs(rng).into_iter().filter(|s| s.sym == "i8") {
        let (min, max) = (spec.min, spec.max);
        out.extend(fixed(spec, vec![LOp::Full, LOp::Table, LOp::Enc(min), LOp::Enc(max), LOp::Enc(0)]));
    }
    // D16: signed symbols, hint off by more than half the symbol range
    let d16a = LeakySpec { sym: "i8", b: 16, p: 12, min: -100, max: 100, base: Base::Gauss(0.0, 60.0), hint: HintMode::ConstF(100.0) };
    out.extend(fixed(d16a, vec![LOp::Full, LOp::Dec(828), LOp::Sweep(0, 4095, 1)]));
    let d16b = LeakySpec { sym: "i8", b: 16, p: 12, min: -128, max: 127, base: Base::Gauss(0.0, 60.0), hint: HintMode::ConstF(127.0) };
    out.extend(fixed(d16b, vec![LOp::Full, LOp::Dec(208), LOp::Sweep(0, 4095, 1)]));
    // D25 / D27: invalid CDFs must end in the documented panic, never in `NonZero::new_unchecked(0)`
    let d25 = LeakySpec { sym: "u8", b: 16, p: 12, min: 0, max: 3, base: Base::Step(vec![0.5, 1.5, 2.5], vec![0.0, 0.5, f64::from_bits(0x3fdffdff7fdff7fe), 0.9]), hint: HintMode::ConstF(0.0) };
    out.extend(fixed(d25.clone(), vec![LOp::Full, LOp::Table]));
    out.extend(fixed(d25, vec![LOp::Full, LOp::Enc(0), LOp::Enc(1), LOp::Enc(2)]));
    let d26a = LeakySpec { sym: "u8", b: 8, p: 8, min: 0, max: 3, base: Base::Step(vec![0.5], vec![0.0, 2.0]), hint: HintMode::ConstF(0.0) };
    out.extend(fixed(d26a, vec![LOp::Full, LOp::Dec(5)]));
    let d26b = LeakySpec { sym: "u8", b: 16, p: 12, min: 0, max: 3, base: Base::Step(vec![0.5], vec![0.0, 1e9]), hint: HintMode::ConstF(-1e9) };
    out.extend(fixed(d26b, vec![LOp::Full, LOp::Dec(5)]));
    let d16c = LeakySpec { sym: "i8", b: 16, p: 12, min: -128, max: 127, base: Base::Gauss(0.0, 60.0), hint: HintMode::ConstF(-128.0) };
    out.extend(fixed(d16c, vec![LOp::Full, LOp::Dec(3881), LOp::Sweep(0, 4095, 1)]));
    // directed invalid-argument classes: the model answers `rejected` for the invalid ones, so an
    // acceptance by the implementation is flagged by the correspondence directly
    for _ in 0..k {
        for is32 in [true, false] {
            let f = if is32 { "f32" } else { "f64" };
            for cls in 0..N_DIRECTED {
                let mut idx = 0usize;
                for (b, ps) in FP_BP {
                    for p in ps.iter() {
                        let (v, norm, _, _) = directed_case(rng, cls, is32);
                        let tbl = show_list(to_bits_list(&v, is32));
                        let tok = norm_token(norm, is32);
                        let ctor = ["cont", "ncenc", "ncdec"][idx % 3];
                        idx += 1;
                        out.push(format!("quant.fast {} {} {:x} {:x} {} {}", ctor, f, b, p, tok, tbl));
                        let qmax = if *p == *b { pow2(*b).wrapping_sub(1) } else { pow2(*p) - 1 };
                        let stride = (qmax / 1023).max(1);
                        out.push(format!(
                            "quant.lazy {} {:x} {:x} {} {} | table | dec 0 | dec 1 | dec {:x} | dec {:x} | sweep 0 {:x} {:x}",
                            f, b, p, tok, tbl, qmax / 2, qmax, qmax, stride
                        ));
                    }
                }
                for (b, ps) in LOOKUP_BP {
                    for p in ps.iter() {
                        let (v, norm, _, _) = directed_case(rng, cls, is32);
                        let tbl = show_list(to_bits_list(&v, is32));
                        let ctor = if idx % 2 == 0 { "lkc" } else { "lknc" };
                        idx += 1;
                        let qmax = pow2(*p) - 1;
                        out.push(format!("quant.fast {} {} {:x} {:x} {} {} | dec 0 | dec {:x} | sweep 0 {:x} {:x}", ctor, f, b, p, norm_token(norm, is32), tbl, qmax, qmax, (qmax / 4095).max(1)));
                    }
                }
                for (b, ps) in PERFECT_BP {
                    for p in ps.iter() {
                        let (v, _, _, _) = directed_case(rng, cls, is32);
                        let tblv = to_bits_list(&v, is32);
                        let w = guarded(|| dispatch_perfect_weights(f, *b, *p, &tblv)).ok().flatten().flatten().unwrap_or_default();
                        out.push(format!("quant.perfect {} {:x} {:x} {} {}", f, b, p, show_list(tblv), show_list(w)));
                    }
                }
            }
        }
    }
    // single float operations: hardware floats vs the software IEEE model of the Lean side
    for _ in 0..400 * k {
        out.push(gen_sfop_line(rng));
    }
    // tiny / huge normalisation (eager `fast_quantized_cdf` vs the lazy model's own arithmetic)
    for _ in 0..2 * k {
        for is32 in [true, false] {
            let f = if is32 { "f32" } else { "f64" };
            let mut idx = 0usize;
            for (b, ps) in FP_BP {
                for p in ps.iter() {
                    for regime in 0..TINY_REGIMES.len() {
                        let (v, sum) = tiny_norm_case(rng, is32, *p, regime);
                        let tl = show_list(to_bits_list(&v, is32));
                        let tok = if idx % 2 == 0 { "-".to_string() } else { norm_token(Some(sum), is32) };
                        let ctor = ["cont", "ncdec", "ncenc"][idx % 3];
                        idx += 1;
                        let qmax = if *p == *b { pow2(*b).wrapping_sub(1) } else { pow2(*p) - 1 };
                        let stride = (qmax / 509).max(1);
                        out.push(format!("quant.fast {} {} {:x} {:x} {} {}", ctor, f, b, p, tok, tl));
                        out.push(format!("quant.lazy {} {:x} {:x} {} {} | table | dec 0 | dec {:x} | sweep 0 {:x} {:x}", f, b, p, tok, tl, qmax, qmax, stride));
                    }
                }
            }
        }
    }
    // directed length classes around 2^B (B = Probability::BITS): the length must be compared
    // before it is narrowed to `Probability`; all zeros with one spike (first / index 2^B-1 / last)
    for is32 in [true, false] {
        let f = if is32 { "f32" } else { "f64" };
        let one = if is32 { 0x3f80_0000u128 } else { 0x3ff0_0000_0000_0000u128 };
        let mut idx = 0usize;
        for (b, ps, bps) in [(8u32, &[1u32, 2, 3, 8][..], true), (16, &[16u32][..], false)] {
            let full = 1usize << b;
            for len in [full - 1, full, full + 1, full + 2, 2 * full + 1] {
                for spike in [0, full - 1, len - 1] {
                    if spike >= len || (!bps && !(len == full + 1 && spike == full - 1 && is32)) {
                        continue;
                    }
                    let mut tbl = vec![0u128; len];
                    tbl[spike] = one;
                    let tl = show_list(tbl);
                    for p in ps {
                        let ctor = ["cont", "ncenc", "ncdec", "lkc", "lknc"][idx % 5];
                        idx += 1;
                        let lookup_ok = LOOKUP_BP.iter().any(|(bb, pp)| *bb == b && pp.contains(p));
                        let ctor = if !lookup_ok && ctor.starts_with("lk") { "cont" } else { ctor };
                        out.push(format!("quant.fast {} {} {:x} {:x} - {}", ctor, f, b, p, tl));
                        out.push(format!("quant.lazy {} {:x} {:x} - {} | enc {:x} | enc {:x} | dec 0", f, b, p, tl, full - 1, len - 1));
                    }
                }
            }
        }
    }
    for _ in 0..3000 * k {
        out.push(gen_fast_line(rng));
    }
    for _ in 0..400 * k {
        out.push(gen_perfect_line(rng));
    }
    for _ in 0..1200 * k {
        out.push(gen_lazy_line(rng, false));
    }
    for _ in 0..100 * k {
        out.push(gen_lazy_line(rng, true));
    }
    for _ in 0..600 * k {
        out.push(gen_new_line(rng));
    }
    for _ in 0..2500 * k {
        if let Some(l) = gen_leaky_line(rng, false) {
            out.push(l);
        }
    }
    for _ in 0..80 * k {
        let spec = gen_badcdf_spec(rng);
        out.extend(badcdf_lines(rng, &spec));
    }
    for _ in 0..90 * k {
        if let Some(l) = gen_leaky_line(rng, true) {
            out.push(l);
        }
    }
}


// ---------------------------------------------------------------------------------------
// implementation-level oracles (no reference to the Lean model)

/// looks up the interval that owns `q` in an in-order symbol table (binary search on `c`)
fn table_find(t: &[Triple], q: u128) -> Option<Triple> {
    let i = t.partition_point(|x| x.1 <= q);
    if i == 0 {
        return None;
    }
    let e = t[i - 1];
    if e.1 <= q && q < e.1 + e.2 {
        Some(e)
    } else {
        None
    }
}

fn quantiles_for(rng: &mut Rng, p: u32, t: &[Triple], cap: usize) -> Vec<u128> {
    let total = pow2(p);
    if p <= 12 {
        return (0..total).collect();
    }
    let mut v: Vec<u128> = vec![0, total - 1, total / 2];
    // boundary directed
    for _ in 0..cap / 4 {
        if t.is_empty() {
            break;
        }
        let e = rng.pick(t);
        for q in [e.1.wrapping_sub(1), e.1, e.1 + e.2 - 1, e.1 + e.2] {
            if q < total {
                v.push(q);
            }
        }
    }
    // stratified
    let stride = (total / cap as u128).max(1);
    let mut q = rng.below(stride);
    while q < total {
        v.push(q);
        q += stride;
    }
    v
}

fn has_invalid_entry<F: Fl>(probs: &[F]) -> bool {
    probs.iter().any(|p| !(*p >= F::zero()))
}

/// directed invalid-argument classes for the float constructors.  Returns the table (as `f64`
/// values, converted to the target float type by the caller), the normalisation, the class
/// name, and whether the documentation lists the argument as an error ("must reject").
pub const N_DIRECTED: usize = 18;
pub fn directed_case(rng: &mut Rng, k: usize, is32: bool) -> (Vec<f64>, Option<f64>, &'static str, bool) {
    let unit = |r: &mut Rng| (r.next() >> 11) as f64 / (1u64 << 53) as f64;
    let n = 2 + (rng.next() % 6) as usize;
    let good: Vec<f64> = (0..n).map(|i| if i == 1 && rng.chance(1, 3) { 0.0 } else { 0.25 + 100.0 * unit(rng) }).collect();
    let (fmax, fmin, sub) = if is32 { (f32::MAX as f64, f32::MIN_POSITIVE as f64, 1e-40) } else { (f64::MAX, f64::MIN_POSITIVE, 1e-310) };
    let big = if is32 { 3e38 } else { 1.7e308 };
    match k {
        0 => (good, Some(f64::INFINITY), "norm=+inf", true),
        1 => (good, Some(f64::NEG_INFINITY), "norm=-inf", true),
        2 => (good, Some(f64::NAN), "norm=NaN", true),
        3 => (good, Some(0.0), "norm=0", true),
        4 => (good, Some(-0.0), "norm=-0", true),
        5 => (good.clone(), Some(-good.iter().sum::<f64>()), "norm<0", true),
        6 => (good, Some(sub), "norm=subnormal", false),
        7 => (good, Some(fmax), "norm=MAX", false),
        8 => (good, Some(fmin), "norm=tiny-normal", false),
        9 => (vec![big, big, 1.0, 2.0], None, "sum-overflows", true),
        10 => (vec![f64::INFINITY, 1.0, 1.0], None, "inf-entry", true),
        11 => (vec![0.0; n], None, "all-zero", true),
        12 => (vec![sub / 4.0, sub / 4.0, 0.0, sub / 8.0], None, "sum=subnormal", false),
        13 => (vec![1.0, f64::INFINITY, 1.0], Some(2.0), "inf-entry+norm", false),
        14 => (vec![1.0, f64::NAN, 1.0], None, "NaN-entry", true),
        15 => (vec![1.0, -0.5, 1.0], Some(1.5), "negative-entry+norm", true),
        16 => (vec![big, big, 1.0, 2.0], Some(fmax), "sum-overflows+norm=MAX", false),
        _ => (vec![0.25, 0.25, 0.5], Some(f64::INFINITY), "lead-trigger norm=+inf", true),
    }
}

fn norm_token(norm: Option<f64>, is32: bool) -> String {
    match norm {
        None => "-".into(),
        Some(x) => {
            if is32 {
                format!("{:x}", (x as f32).to_bits())
            } else {
                format!("{:x}", x.to_bits())
            }
        }
    }
}

/// C03-validity of BOTH views of one accepted model: the encoder view must tile `[0, 2^P)` with
/// `n` non-empty proper bins, and the decoder must return, for every (sampled) quantile, exactly
/// the encoder's bin.  `enc` / `table` / `dec` = whatever views the representation offers.
fn views_check(
    p: u32,
    n: usize,
    enc: Option<&dyn Fn(usize) -> Option<(u128, u128)>>,
    table: Option<Vec<Triple>>,
    dec: Option<&dyn Fn(u128) -> Triple>,
    rng: &mut Rng,
) -> Result<(Vec<Triple>, u64), String> {
    let mut evals = 0u64;
    // a model that exposes `symbol_table()` is validated through it first: the direct queries of
    // some representations use `into_nonzero_unchecked` / unchecked indexing
    if let Some(t) = &table {
        if t.len() != n || !table_valid(p, t) {
            return Err(format!("its symbol table is not a tiling of [0, 2^P) by {} non-empty proper bins: {}", n, show_triples(&t[..t.len().min(8)])));
        }
    }
    let enc_table: Option<Vec<Triple>> = match enc {
        None => None,
        Some(e) => {
            let mut t = Vec::with_capacity(n);
            for s in 0..n {
                match e(s) {
                    None => return Err(format!("symbol {} inside the support has no probability", s)),
                    Some((c, pr)) => t.push((s as u128, c, pr)),
                }
            }
            Some(t)
        }
    };
    if let (Some(a), Some(b)) = (&enc_table, &table) {
        if a != b {
            return Err("symbol_table() and left_cumulative_and_probability disagree".into());
        }
    }
    let t = enc_table.or(table).ok_or_else(|| "no view".to_string())?;
    evals += t.len() as u64;
    if t.len() != n || !table_valid(p, &t) {
        return Err(format!("encoder view is not a tiling of [0, 2^P) by {} non-empty proper bins: {}", n, show_triples(&t[..t.len().min(8)])));
    }
    if let Some(d) = dec {
        for q in quantiles_for(rng, p, &t, 400) {
            evals += 1;
            c10_add(1);
            let got = d(q);
            if Some(got) != table_find(&t, q) {
                return Err(format!(
                    "decoder and encoder disagree: quantile_function({:x}) = {:x}:{:x}:{:x} but the encoder view has {:?}",
                    q,
                    got.0,
                    got.1,
                    got.2,
                    table_find(&t, q)
                ));
            }
        }
    }
    Ok((t, evals))
}

/// a table as protocol text; very long tables (directed length classes) are described instead
fn show_tbl(tbl: &[u128]) -> String {
    if tbl.len() <= 4096 {
        return show_list(tbl.to_vec());
    }
    let nz: Vec<String> = tbl.iter().enumerate().filter(|(_, &b)| b != 0).take(5).map(|(i, b)| format!("{:x} at index {}", b, i)).collect();
    format!("<{} entries: 0 except {}>", tbl.len(), nz.join(", "))
}

/// outcome of one constructor kind on one input
enum Outcome {
    Rejected,
    Accepted(Vec<Triple>),
}

fn report_ctor(
    rep: &mut Report,
    line: &str,
    ctor: &str,
    must_reject: Option<&str>,
    r: Result<Result<Option<(Vec<Triple>, u64)>, String>, &'static str>,
) -> Option<Outcome> {
    rep.eval("C19");
    rep.eval("C20");
    c10_drain(rep);
    let has_decoder = !ctor.starts_with("ncenc");
    match r {
        Err(class) => {
            rep.fail("C19", format!("{} => constructor or accepted model of `{}` panicked ({})", line, ctor, class));
            rep.fail("C03", format!("{} => constructor or accepted model of `{}` panicked ({})", line, ctor, class));
            rep.fail("C20", format!("{} => constructor or accepted model of `{}` panicked ({})", line, ctor, class));
            if has_decoder {
                rep.fail("C10", format!("{} => constructor or decoder of `{}` panicked ({})", line, ctor, class));
            }
            None
        }
        Ok(Ok(None)) => {
            rep.count(&format!("ctor.{}.rejected", ctor));
            Some(Outcome::Rejected)
        }
        Ok(Ok(Some((t, evals)))) => {
            rep.count(&format!("ctor.{}.accepted", ctor));
            *rep.evals.entry("C03".into()).or_insert(0) += evals;
            if let Some(class) = must_reject {
                rep.fail("C19", format!("{} => accepted by `{}` although the documentation lists this argument as an error ({})", line, ctor, class));
            }
            Some(Outcome::Accepted(t))
        }
        Ok(Err(what)) => {
            rep.count(&format!("ctor.{}.accepted", ctor));
            rep.fail("C19", format!("{} => accepted by `{}` but {}", line, ctor, what));
            rep.fail("C03", format!("{} => accepted by `{}` but {}", line, ctor, what));
            // an accepted-but-broken model reaches an unsafe precondition on its next query (zero
            // probability in a `NonZero`, unchecked index into a short table)
            rep.fail("C20", format!("{} => accepted by `{}` but {}", line, ctor, what));
            if has_decoder && (what.contains("decoder") || what.contains("lookup table") || what.contains("quantile")) {
                rep.fail("C10", format!("{} => accepted by `{}` but {}", line, ctor, what));
            }
            None
        }
    }
}

/// C19 / C03 / C05 / C09 / C20 for the `…_fast` constructor kinds (eager, lazy, non-contiguous
/// encoder and decoder) on one input.  For every ACCEPTED model both views are validated first.
fn check_fast_ctors<F, Pr, const P: usize>(tbl: &[u128], norm: Option<u128>, norm_tok: &str, must_reject: Option<&str>, rng: &mut Rng, rep: &mut Report)
where
    F: Fl + AsPrimitive<Pr>,
    Pr: BitArray + AsPrimitive<usize> + AsPrimitive<F>,
    usize: AsPrimitive<Pr> + AsPrimitive<F>,
{
    let probs: Vec<F> = tbl.iter().map(|&b| F::from_bits_u(b)).collect();
    let normf = norm.map(F::from_bits_u);
    let n = probs.len();
    let p = P as u32;
    let line = |ctor: &str| format!("quant.fast {} {} {:x} {:x} {} {}", ctor, F::NAME, Pr::BITS, P, norm_tok, show_tbl(tbl));
    let lazy_line = format!("quant.lazy {} {:x} {:x} {} {} | table | sweep 0 {:x} {:x}", F::NAME, Pr::BITS, P, norm_tok, show_tbl(tbl), pow2(p) - 1, (pow2(p) / 4096).max(1));
    rep.count(&format!("fast.{}.B{}.P{}", F::NAME, Pr::BITS, P));
    let tr = |x: (usize, Pr, Pr::NonZero)| -> Triple { (x.0 as u128, to_u128(x.1), to_u128(x.2.get())) };
    let cp = |x: Option<(Pr, Pr::NonZero)>| -> Option<(u128, u128)> { x.map(|(c, p)| (to_u128(c), to_u128(p.get()))) };

    // eager contiguous
    let mut r1 = rng.fork();
    set_case(&line("cont"));
    let eager = report_ctor(rep, &line("cont"), "cont", must_reject, guarded(|| {
        match ContiguousCategoricalEntropyModel::<Pr, Vec<Pr>, P>::from_floating_point_probabilities_fast(&probs, normf) {
            Err(()) => Ok(None),
            Ok(m) => {
                let table: Vec<Triple> = m.symbol_table().map(tr).collect();
                let enc = |s: usize| cp(m.left_cumulative_and_probability(s));
                let dec = |q: u128| tr(m.quantile_function(from_u128(q)));
                let r = views_check(p, n, Some(&enc), Some(table), Some(&dec), &mut r1)?;
                for s in [n, n + 1, 0xffff, 0x1_0001, 0xffff_ffff, 0x1_0000_0003, usize::MAX] {
                    if s >= n && m.left_cumulative_and_probability(s).is_some() {
                        return Err(format!("out-of-support symbol {:x} accepted", s));
                    }
                }
                Ok(Some(r))
            }
        }
    }));
    // lazy
    let mut r2 = rng.fork();
    set_case(&lazy_line);
    let lazy = report_ctor(rep, &lazy_line, "lazy", must_reject, guarded(|| {
        match LazyContiguousCategoricalEntropyModel::<Pr, F, _, P>::from_floating_point_probabilities_fast(&probs[..], normf) {
            Err(()) => Ok(None),
            Ok(m) => {
                let enc = |s: usize| cp(m.left_cumulative_and_probability(s));
                let dec = |q: u128| tr(m.quantile_function(from_u128(q)));
                let r = views_check(p, n, Some(&enc), None, Some(&dec), &mut r2)?;
                for s in [n, n + 1, 0xffff, 0x1_0001, 0xffff_ffff, 0x1_0000_0003, usize::MAX] {
                    if s >= n && m.left_cumulative_and_probability(s).is_some() {
                        return Err(format!("out-of-support symbol {:x} accepted", s));
                    }
                }
                Ok(Some(r))
            }
        }
    }));
    // non-contiguous encoder
    let mut r3 = rng.fork();
    set_case(&line("ncenc"));
    let ncenc = report_ctor(rep, &line("ncenc"), "ncenc", must_reject, guarded(|| {
        match NonContiguousCategoricalEncoderModel::<usize, Pr, P>::from_symbols_and_floating_point_probabilities_fast(0..n, &probs, normf) {
            Err(()) => Ok(None),
            Ok(m) => {
                let enc = |s: usize| cp(m.left_cumulative_and_probability(s));
                let r = views_check(p, n, Some(&enc), None, None, &mut r3)?;
                if m.left_cumulative_and_probability(n).is_some() || m.left_cumulative_and_probability(usize::MAX).is_some() {
                    return Err("out-of-support symbol accepted".into());
                }
                Ok(Some(r))
            }
        }
    }));
    // non-contiguous decoder
    let mut r4 = rng.fork();
    set_case(&line("ncdec"));
    let ncdec = report_ctor(rep, &line("ncdec"), "ncdec", must_reject, guarded(|| {
        match NonContiguousCategoricalDecoderModel::<usize, Pr, Vec<(Pr, usize)>, P>::from_symbols_and_floating_point_probabilities_fast(0..n, &probs, normf) {
            Err(()) => Ok(None),
            Ok(m) => {
                let table: Vec<Triple> = m.symbol_table().map(tr).collect();
                let dec = |q: u128| tr(m.quantile_function(from_u128(q)));
                Ok(Some(views_check(p, n, None, Some(table), Some(&dec), &mut r4)?))
            }
        }
    }));
    for _ in 0..n.min(64) {
        rep.eval("C09");
    }
    // C05: all representations agree on acceptance and on the table
    let outs = [("cont", eager), ("lazy", lazy), ("ncenc", ncenc), ("ncdec", ncdec)];
    let mut reference: Option<(&str, Option<&Vec<Triple>>)> = None;
    for (name, o) in outs.iter() {
        let cur: Option<&Vec<Triple>> = match o {
            None => continue, // already reported
            Some(Outcome::Rejected) => None,
            Some(Outcome::Accepted(t)) => Some(t),
        };
        rep.eval("C05");
        match &reference {
            None => reference = Some((name, cur)),
            Some((rname, rcur)) => {
                if *rcur != cur {
                    let l = if *name == "lazy" { lazy_line.clone() } else { line(name) };
                    let what = match (rcur, cur) {
                        (Some(a), Some(b)) => {
                            let i = (0..a.len().min(b.len())).find(|&i| a[i] != b[i]).unwrap_or(a.len().min(b.len()));
                            let row = |t: &Vec<Triple>| t.get(i).map(|e| format!("({:x}, {:x})", e.1, e.2)).unwrap_or("-".into());
                            format!("build different models from the same arguments: symbol {:x} is {} in `{}` and {} in `{}`", i, row(a), rname, row(b), name)
                        }
                        _ => "disagree on acceptance".to_string(),
                    };
                    rep.fail("C05", format!("{} => `{}` and `{}` {}", l, rname, name, what));
                    if rcur.is_some() != cur.is_some() {
                        rep.fail("C19", format!("{} => `{}` and `{}` disagree on acceptance", l, rname, name));
                    }
                }
            }
        }
    }
    // accepted ⇒ documented preconditions (D14)
    if let Some((_, Some(_))) = reference {
        if has_invalid_entry(&probs) || n < 2 {
            rep.fail("C19", format!("{} => accepted a table with a negative/NaN entry or fewer than 2 entries", line("cont")));
        }
        rep.sample("C03", || line("cont"));
    }
}

/// random inputs
fn oracle_fast_one<F, Pr, const P: usize>(rng: &mut Rng, rep: &mut Report)
where
    F: Fl + AsPrimitive<Pr>,
    Pr: BitArray + AsPrimitive<usize> + AsPrimitive<F>,
    usize: AsPrimitive<Pr> + AsPrimitive<F>,
{
    let is32 = F::NAME == "f32";
    let n = gen_len(rng, P as u32).min(400);
    let mut v = gen_weights(rng, n, is32);
    if corrupt(rng, &mut v) {
        rep.count("fast.corrupted");
    }
    let tbl = to_bits_list(&v, is32);
    let norm_tok = gen_norm(rng, &v, is32);
    let norm: Option<u128> = if norm_tok == "-" { None } else { parse_hex(&norm_tok) };
    check_fast_ctors::<F, Pr, P>(&tbl, norm, &norm_tok, None, rng, rep);
}

/// directed invalid-argument classes
fn oracle_directed_fast<F, Pr, const P: usize>(rng: &mut Rng, rep: &mut Report)
where
    F: Fl + AsPrimitive<Pr>,
    Pr: BitArray + AsPrimitive<usize> + AsPrimitive<F>,
    usize: AsPrimitive<Pr> + AsPrimitive<F>,
{
    let is32 = F::NAME == "f32";
    for k in 0..N_DIRECTED {
        let (v, norm, class, must) = directed_case(rng, k, is32);
        rep.count(&format!("directed.{}", class));
        let tbl = to_bits_list(&v, is32);
        let tok = norm_token(norm, is32);
        let nb: Option<u128> = if tok == "-" { None } else { parse_hex(&tok) };
        check_fast_ctors::<F, Pr, P>(&tbl, nb, &tok, if must { Some(class) } else { None }, rng, rep);
    }
}

/// C05 for the lookup constructors (small `P` only): same table, same decoder
fn oracle_lookup_one<F, Pr, const P: usize>(rng: &mut Rng, rep: &mut Report)
where
    F: Fl + AsPrimitive<Pr>,
    Pr: BitArray + AsPrimitive<usize> + Into<usize>,
    usize: AsPrimitive<Pr> + AsPrimitive<F>,
    f64: AsPrimitive<Pr>,
{
    let is32 = F::NAME == "f32";
    let n = gen_len(rng, P as u32).min(100);
    let mut v = gen_weights(rng, n, is32);
    corrupt(rng, &mut v);
    let tbl = to_bits_list(&v, is32);
    let cell = if P == Pr::BITS { "P==BITS" } else { "P<BITS" };
    let line = |ctor: &str| format!("quant.fast {} {} {:x} {:x} - {}", ctor, F::NAME, Pr::BITS, P, show_list(tbl.clone()));
    let probs: Vec<F> = tbl.iter().map(|&b| F::from_bits_u(b)).collect();
    let p = P as u32;
    set_case(&line("lkc"));
    let tr = |x: (usize, Pr, Pr::NonZero)| -> Triple { (x.0 as u128, to_u128(x.1), to_u128(x.2.get())) };
    // Err = (constructor kind of the failing line, what)
    let res = guarded(|| -> Result<u64, (&'static str, String)> {
        let eager = ContiguousCategoricalEntropyModel::<Pr, Vec<Pr>, P>::from_floating_point_probabilities_fast(&probs, None);
        let lkc = ContiguousLookupDecoderModel::<Pr, Vec<Pr>, Box<[Pr]>, P>::from_floating_point_probabilities_fast(&probs, None);
        let lknc = NonContiguousLookupDecoderModel::<usize, Pr, Vec<(Pr, usize)>, Box<[Pr]>, P>::from_symbols_and_floating_point_probabilities_fast(0..n, &probs, None);
        let (eager, lkc, lknc) = match (eager, lkc, lknc) {
            (Err(()), Err(()), Err(())) => return Ok(0),
            (Ok(a), Ok(b), Ok(c)) => (a, b, c),
            _ => return Err(("lkc", "constructors disagree on acceptance".into())),
        };
        let table: Vec<Triple> = eager.symbol_table().map(tr).collect();
        let t2: Vec<Triple> = lkc.symbol_table().map(tr).collect();
        let t3: Vec<Triple> = lknc.symbol_table().map(tr).collect();
        if t2 != table {
            return Err(("lkc", "accepted but its symbol table differs from the contiguous model's".into()));
        }
        if t3 != table {
            return Err(("lknc", "accepted but its symbol table differs from the contiguous model's".into()));
        }
        // safe views first: a broken lookup table would make `quantile_function` index out of bounds
        lookup_table_check(&lkc, p, &table).map_err(|w| ("lkc", format!("accepted but {}", w)))?;
        lookup_table_check(&lknc, p, &table).map_err(|w| ("lknc", format!("accepted but {}", w)))?;
        let conv = eager.to_lookup_decoder_model();
        lookup_table_check(&conv, p, &table).map_err(|w| ("cont", format!("to_lookup_decoder_model(): {}", w)))?;
        let mut evals = 0u64;
        for q in 0..pow2(p) {
            let want = table_find(&table, q);
            let qq: Pr = from_u128(q);
            for (name, got) in [("lkc", tr(lkc.quantile_function(qq))), ("lknc", tr(lknc.quantile_function(qq))), ("cont", tr(conv.quantile_function(qq)))] {
                evals += 1;
                if Some(got) != want {
                    return Err((name, format!("accepted but decoder and encoder disagree: quantile_function({:x}) = {:x}:{:x}:{:x}, the symbol table has {:?}", q, got.0, got.1, got.2, want)));
                }
            }
        }
        Ok(evals)
    });
    rep.eval("C05");
    rep.eval("C20");
    rep.count(&format!("any.lookup.lkc.random.{}", cell));
    rep.count(&format!("any.lookup.lknc.random.{}", cell));
    match res {
        Ok(Ok(evals)) => {
            *rep.evals.entry("C10".into()).or_insert(0) += evals;
            *rep.evals.entry("C03".into()).or_insert(0) += evals;
        }
        Ok(Err((ctor, what))) => {
            for prop in ["C05", "C03", "C10", "C19", "C20"] {
                rep.fail(prop, format!("{} => {}", line(ctor), what));
            }
        }
        Err(class) => {
            for prop in ["C19", "C10", "C20"] {
                rep.fail(prop, format!("{} => constructor or decoder panicked ({})", line("lkc"), class));
            }
        }
    }
}

/// C19 for the `…_perfect` constructors: rejected, or a valid model
fn oracle_perfect_one<F, Pr, const P: usize>(rng: &mut Rng, rep: &mut Report) -> Option<Vec<u128>>
where
    F: Fl,
    Pr: BitArray + Into<f64> + AsPrimitive<usize>,
    f64: AsPrimitive<Pr>,
    usize: AsPrimitive<Pr>,
{
    let is32 = F::NAME == "f32";
    // tables longer than `2^P` (possible for `P < Probability::BITS`): the free weight wraps, and only the
    // final validation pass stands between the first pass and a model whose cdf runs past `2^P`
    let oversized = P <= 8 && (P as u32) < Pr::BITS as u32 && rng.chance(1, 6);
    let n = if oversized { (1usize << P) + 1 + (rng.next() % 5) as usize } else { (gen_len(rng, P as u32)).min(if P <= 3 { 7 } else { 60 }) };
    let mut v = gen_weights(rng, n, is32);
    corrupt(rng, &mut v);
    let tbl = to_bits_list(&v, is32);
    let replay = format!("quant.perfect {} {:x} {:x} {} -", F::NAME, Pr::BITS, P, show_list(tbl.clone()));
    if oversized {
        rep.count("perfect.oversized_table");
    }
    let probs: Vec<F> = tbl.iter().map(|&b| F::from_bits_u(b)).collect();
    let res = guarded(|| perfect_weights::<F, Pr, P>(&tbl));
    rep.eval("C19");
    rep.eval("C20");
    match res {
        // (a table with more than 2^P entries may end in a panic of the second distribution pass: a
        // clean failure by C19's wording)
        Err(_) if oversized => rep.count("perfect.oversized_panicked"),
        Err(class) => rep.fail("C19", format!("{} # {}", replay, class)),
        Ok(None) => rep.count("perfect.rejected"),
        Ok(Some(w)) => {
            rep.count("perfect.accepted");
            let ok = w.len() == n && w.iter().all(|&x| x > 0 && x < pow2(P as u32)) && w.iter().sum::<u128>() == pow2(P as u32);
            if !ok || has_invalid_entry(&probs) || n < 2 {
                rep.fail("C19", format!("{} # accepted but invalid", replay));
            }
        }
    }
    None
}

/// directed classes for the lookup constructor kinds (`…_fast` and `…_perfect`)
fn oracle_directed_lookup<F, Pr, const P: usize>(rng: &mut Rng, rep: &mut Report)
where
    F: Fl + AsPrimitive<Pr>,
    Pr: BitArray + AsPrimitive<usize> + Into<usize> + Into<f64>,
    usize: AsPrimitive<Pr> + AsPrimitive<F>,
    f64: AsPrimitive<Pr>,
{
    let is32 = F::NAME == "f32";
    let p = P as u32;
    let cell = if P == Pr::BITS { "P==BITS" } else { "P<BITS" };
    for k in 0..N_DIRECTED {
        rep.count(&format!("any.lookup.lkc.directed.{}", cell));
        rep.count(&format!("any.lookup.lknc.directed.{}", cell));
        let (v, norm, class, must) = directed_case(rng, k, is32);
        let tbl = to_bits_list(&v, is32);
        let tok = norm_token(norm, is32);
        let probs: Vec<F> = tbl.iter().map(|&b| F::from_bits_u(b)).collect();
        let normf = norm.map(|_| F::from_bits_u(parse_hex(&tok).unwrap()));
        let n = probs.len();
        let must = if must { Some(class) } else { None };
        let line = |ctor: &str| format!("quant.fast {} {} {:x} {:x} {} {}", ctor, F::NAME, Pr::BITS, P, tok, show_list(tbl.clone()));
        let tr = |x: (usize, Pr, Pr::NonZero)| -> Triple { (x.0 as u128, to_u128(x.1), to_u128(x.2.get())) };
        let mut r1 = rng.fork();
        set_case(&line("lkc"));
        report_ctor(rep, &line("lkc"), "lkc", must, guarded(|| {
            match ContiguousLookupDecoderModel::<Pr, Vec<Pr>, Box<[Pr]>, P>::from_floating_point_probabilities_fast(&probs, normf) {
                Err(()) => Ok(None),
                Ok(m) => {
                    let table: Vec<Triple> = m.symbol_table().map(tr).collect();
                    lookup_table_check(&m, p, &table)?;
                    let dec = |q: u128| tr(m.quantile_function(from_u128(q)));
                    Ok(Some(views_check(p, n, None, Some(table), Some(&dec), &mut r1)?))
                }
            }
        }));
        let mut r2 = rng.fork();
        set_case(&line("lknc"));
        report_ctor(rep, &line("lknc"), "lknc", must, guarded(|| {
            match NonContiguousLookupDecoderModel::<usize, Pr, Vec<(Pr, usize)>, Box<[Pr]>, P>::from_symbols_and_floating_point_probabilities_fast(0..n, &probs, normf) {
                Err(()) => Ok(None),
                Ok(m) => {
                    let table: Vec<Triple> = m.symbol_table().map(tr).collect();
                    lookup_table_check(&m, p, &table)?;
                    let dec = |q: u128| tr(m.quantile_function(from_u128(q)));
                    Ok(Some(views_check(p, n, None, Some(table), Some(&dec), &mut r2)?))
                }
            }
        }));
        if norm.is_none() {
            // the `…_perfect` lookup constructors take no normalisation
            let pline = format!("quant.perfect {} {:x} {:x} {} -", F::NAME, Pr::BITS, P, show_list(tbl.clone()));
            // (`…_perfect` sums in `f64`, so `f32` entries cannot overflow the sum)
            let must = if is32 && class == "sum-overflows" { None } else { must };
            let mut r3 = rng.fork();
            set_case(&pline);
            report_ctor(rep, &pline, "lkc.perfect", must, guarded(|| {
                match ContiguousLookupDecoderModel::<Pr, Vec<Pr>, Box<[Pr]>, P>::from_floating_point_probabilities_perfect(&probs) {
                    Err(()) => Ok(None),
                    Ok(m) => {
                        let table: Vec<Triple> = m.symbol_table().map(tr).collect();
                        lookup_table_check(&m, p, &table)?;
                        let dec = |q: u128| tr(m.quantile_function(from_u128(q)));
                        Ok(Some(views_check(p, n, None, Some(table), Some(&dec), &mut r3)?))
                    }
                }
            }));
            let mut r4 = rng.fork();
            set_case(&pline);
            report_ctor(rep, &pline, "lknc.perfect", must, guarded(|| {
                match NonContiguousLookupDecoderModel::<usize, Pr, Vec<(Pr, usize)>, Box<[Pr]>, P>::from_symbols_and_floating_point_probabilities_perfect(0..n, &probs) {
                    Err(()) => Ok(None),
                    Ok(m) => {
                        let table: Vec<Triple> = m.symbol_table().map(tr).collect();
                        lookup_table_check(&m, p, &table)?;
                        let dec = |q: u128| tr(m.quantile_function(from_u128(q)));
                        Ok(Some(views_check(p, n, None, Some(table), Some(&dec), &mut r4)?))
                    }
                }
            }));
        }
    }
}

/// directed classes for the `…_perfect` constructor kinds (contiguous, non-contiguous encoder
/// and decoder); classes that only vary the normalisation are run on their table
fn oracle_directed_perfect<F, Pr, const P: usize>(rng: &mut Rng, rep: &mut Report) -> Option<Vec<u128>>
where
    F: Fl,
    Pr: BitArray + Into<f64> + AsPrimitive<usize>,
    f64: AsPrimitive<Pr>,
    usize: AsPrimitive<Pr>,
{
    let is32 = F::NAME == "f32";
    let p = P as u32;
    for k in 0..N_DIRECTED {
        let (v, norm, class, must) = directed_case(rng, k, is32);
        // without a normalisation argument only the table classes are invalid arguments
        // (`…_perfect` sums in `f64`, so `f32` entries cannot overflow the sum)
        let must = if must && (norm.is_none() || class == "negative-entry+norm") && !(is32 && class == "sum-overflows") { Some(class) } else { None };
        let tbl = to_bits_list(&v, is32);
        let probs: Vec<F> = tbl.iter().map(|&b| F::from_bits_u(b)).collect();
        let n = probs.len();
        let pline = format!("quant.perfect {} {:x} {:x} {} -", F::NAME, Pr::BITS, P, show_list(tbl.clone()));
        let tr = |x: (usize, Pr, Pr::NonZero)| -> Triple { (x.0 as u128, to_u128(x.1), to_u128(x.2.get())) };
        let cp = |x: Option<(Pr, Pr::NonZero)>| -> Option<(u128, u128)> { x.map(|(c, p)| (to_u128(c), to_u128(p.get()))) };
        let mut r1 = rng.fork();
        set_case(&pline);
        report_ctor(rep, &pline, "cont.perfect", must, guarded(|| {
            match ContiguousCategoricalEntropyModel::<Pr, Vec<Pr>, P>::from_floating_point_probabilities_perfect(&probs) {
                Err(()) => Ok(None),
                Ok(m) => {
                    let table: Vec<Triple> = m.symbol_table().map(tr).collect();
                    let enc = |s: usize| cp(m.left_cumulative_and_probability(s));
                    let dec = |q: u128| tr(m.quantile_function(from_u128(q)));
                    Ok(Some(views_check(p, n, Some(&enc), Some(table), Some(&dec), &mut r1)?))
                }
            }
        }));
        let mut r2 = rng.fork();
        set_case(&pline);
        report_ctor(rep, &pline, "ncenc.perfect", must, guarded(|| {
            match NonContiguousCategoricalEncoderModel::<usize, Pr, P>::from_symbols_and_floating_point_probabilities_perfect(0..n, &probs) {
                Err(()) => Ok(None),
                Ok(m) => {
                    let enc = |s: usize| cp(m.left_cumulative_and_probability(s));
                    Ok(Some(views_check(p, n, Some(&enc), None, None, &mut r2)?))
                }
            }
        }));
        let mut r3 = rng.fork();
        set_case(&pline);
        report_ctor(rep, &pline, "ncdec.perfect", must, guarded(|| {
            match NonContiguousCategoricalDecoderModel::<usize, Pr, Vec<(Pr, usize)>, P>::from_symbols_and_floating_point_probabilities_perfect(0..n, &probs) {
                Err(()) => Ok(None),
                Ok(m) => {
                    let table: Vec<Triple> = m.symbol_table().map(tr).collect();
                    let dec = |q: u128| tr(m.quantile_function(from_u128(q)));
                    Ok(Some(views_check(p, n, None, Some(table), Some(&dec), &mut r3)?))
                }
            }
        }));
    }
    None
}

/// **C09 through the coders**: for every symbol of `bad` the model answers `None`, and an ANS
/// coder and a range encoder (both non-empty) answer `ImpossibleSymbol` and are left exactly as
/// they were (compared through their derived `Debug`); a panic is a failure, too.
/// `line(symbol)` = the protocol line that replays the query.
fn c09_through_coders<M, const P: usize>(model: &M, valid: &[M::Symbol], bad: &[M::Symbol], line: &dyn Fn(&M::Symbol) -> String, rep: &mut Report)
where
    M: EncoderModel<P>,
    M::Probability: Into<u32>,
    u32: AsPrimitive<M::Probability>,
    M::Symbol: Copy + Debug,
{
    use constriction::stream::{queue::RangeEncoder, stack::AnsCoder, Encode};
    use constriction::{CoderError, DefaultEncoderFrontendError};
    let mut ans = AnsCoder::<u32, u64>::new();
    let mut range = RangeEncoder::<u32, u64>::new();
    for s in valid {
        if guarded(|| (ans.encode_symbol(*s, model).is_ok(), range.encode_symbol(*s, model).is_ok())) != Ok((true, true)) {
            rep.fail("C09", format!("{} => a symbol of the support cannot be encoded", line(s)));
            return;
        }
    }
    for s in bad {
        let l = line(s);
        set_case(&l);
        rep.eval("C09");
        rep.eval("C20");
        let r = guarded(|| -> Result<(), String> {
            if model.left_cumulative_and_probability(*s).is_some() {
                return Err("left_cumulative_and_probability returned Some(..) for a symbol outside the support".into());
            }
            let before = (format!("{:?}", ans), format!("{:?}", range));
            let ra = ans.encode_symbol(*s, model);
            let rr = range.encode_symbol(*s, model);
            if !matches!(ra, Err(CoderError::Frontend(DefaultEncoderFrontendError::ImpossibleSymbol))) {
                return Err(format!("AnsCoder::encode_symbol returned {:?} instead of ImpossibleSymbol", ra));
            }
            if !matches!(rr, Err(CoderError::Frontend(DefaultEncoderFrontendError::ImpossibleSymbol))) {
                return Err(format!("RangeEncoder::encode_symbol returned {:?} instead of ImpossibleSymbol", rr));
            }
            if before != (format!("{:?}", ans), format!("{:?}", range)) {
                return Err("the failed encode changed the coder state".into());
            }
            Ok(())
        });
        match r {
            Ok(Ok(())) => {}
            Ok(Err(what)) => {
                rep.fail("C09", format!("{} => {}", l, what));
                return;
            }
            Err(class) => {
                rep.fail("C09", format!("{} => encoding an out-of-support symbol panicked ({})", l, class));
                rep.fail("C20", format!("{} => encoding an out-of-support symbol panicked ({})", l, class));
                return;
            }
        }
    }
}

/// out-of-support symbols for a model over `0..n`: one past the end, beyond, and values that
/// alias an in-support symbol after narrowing to 8 / 16 / 32 / `B` bits
fn bad_symbols(n: usize, b: u32) -> Vec<usize> {
    let mut v = vec![n, n + 1, 2 * n, n + 2, usize::MAX, usize::MAX - 1];
    for k in [8u32, 16, 32, b] {
        if k < 64 {
            v.push((1usize << k) + n - 1);
            v.push((1usize << k) + n);
            v.push(1usize << k);
        }
    }
    v.retain(|&s| s >= n);
    v.sort();
    v.dedup();
    v
}

/// C09 for the categorical models built from floats (lazy, eager, non-contiguous encoder)
fn oracle_c09_one<F, Pr, const P: usize>(rng: &mut Rng, rep: &mut Report) -> Option<Vec<u128>>
where
    F: Fl + AsPrimitive<Pr>,
    Pr: BitArray + AsPrimitive<usize> + AsPrimitive<F> + Into<u32>,
    usize: AsPrimitive<Pr> + AsPrimitive<F>,
    u32: AsPrimitive<Pr>,
{
    let is32 = F::NAME == "f32";
    let n = (2 + rng.next() % 40) as usize;
    let n = n.min((pow2(P as u32) as usize).saturating_sub(2)).max(2);
    let v = gen_weights(rng, n, is32);
    let v: Vec<f64> = v.iter().map(|x| if x.is_finite() && *x >= 0.0 { *x } else { 0.0 }).collect();
    let tbl = to_bits_list(&v, is32);
    let probs: Vec<F> = tbl.iter().map(|&b| F::from_bits_u(b)).collect();
    let tl = show_list(tbl.clone());
    let valid: Vec<usize> = vec![0, n - 1, n / 2];
    let bad = bad_symbols(n, Pr::BITS as u32);
    rep.count(&format!("any.c09.coders.{}.B{}.P{}", F::NAME, Pr::BITS, P));
    if let Ok(m) = LazyContiguousCategoricalEntropyModel::<Pr, F, _, P>::from_floating_point_probabilities_fast(&probs[..], None) {
        let line = |s: &usize| format!("quant.lazy {} {:x} {:x} - {} | enc {:x}", F::NAME, Pr::BITS, P, tl, s);
        c09_through_coders::<_, P>(&m, &valid, &bad, &line, rep);
    }
    if let Ok(m) = ContiguousCategoricalEntropyModel::<Pr, Vec<Pr>, P>::from_floating_point_probabilities_fast(&probs, None) {
        let line = |s: &usize| format!("quant.fast cont {} {:x} {:x} - {} # left_cumulative_and_probability({:x})", F::NAME, Pr::BITS, P, tl, s);
        c09_through_coders::<_, P>(&m, &valid, &bad, &line, rep);
    }
    if let Ok(m) = NonContiguousCategoricalEncoderModel::<usize, Pr, P>::from_symbols_and_floating_point_probabilities_fast(0..n, &probs, None) {
        let line = |s: &usize| format!("quant.fast ncenc {} {:x} {:x} - {} # left_cumulative_and_probability({:x})", F::NAME, Pr::BITS, P, tl, s);
        c09_through_coders::<_, P>(&m, &valid, &bad, &line, rep);
    }
    None
}
perfect_combos!(dispatch_oracle_c09, oracle_c09_one, (rng: &mut Rng, rep: &mut Report) (rng, rep) -> Option<Vec<u128>>);

// ---- C20 class "caller-chosen safe-trait parameters that are not stable" -------------------

/// how an adversarial `AsRef<[F]>` buffer answers its `k`-th call (counted from a shared counter
/// that the oracle resets before each query)
#[derive(Clone, Copy, Debug)]
enum BufMode {
    /// the full slice for the first `k` calls, then only the first `short` entries
    ShrinkAfter(usize, usize),
    /// only the first `short` entries for the first `k` calls, then the full slice
    GrowAfter(usize, usize),
    /// alternates between the full slice and the first `short` entries
    Alternate(usize),
    /// the full slice for the first `k` calls, then an empty slice
    EmptyAfter(usize),
}

/// a buffer whose `as_ref()` is not stable — legal, since `AsRef` is a safe trait
struct AdvPmf<F> {
    full: Vec<F>,
    mode: BufMode,
    calls: std::rc::Rc<std::cell::Cell<usize>>,
}
impl<F> AsRef<[F]> for AdvPmf<F> {
    fn as_ref(&self) -> &[F] {
        let c = self.calls.get();
        self.calls.set(c + 1);
        let short = |n: usize| &self.full[..n.min(self.full.len())];
        match self.mode {
            BufMode::ShrinkAfter(k, n) => if c < k { &self.full } else { short(n) },
            BufMode::GrowAfter(k, n) => if c < k { short(n) } else { &self.full },
            BufMode::Alternate(n) => if c % 2 == 0 { &self.full } else { short(n) },
            BufMode::EmptyAfter(k) => if c < k { &self.full } else { short(0) },
        }
    }
}

/// a `Borrow<usize>` symbol whose `borrow()` is not stable
struct FlipSym {
    vals: [usize; 2],
    calls: std::cell::Cell<usize>,
}
impl std::borrow::Borrow<usize> for FlipSym {
    fn borrow(&self) -> &usize {
        let c = self.calls.get();
        self.calls.set(c + 1);
        &self.vals[c % 2]
    }
}

/// **C20, lazy model over a buffer whose `AsRef` is not stable** (and symbols whose `Borrow` is
/// not stable): any answer — `Some`, `None`, an ordinary panic — is acceptable; a std UB-check
/// abort kills the process, and the panic hook then reports the case announced with `set_case`
fn oracle_adv_buffer<F, Pr, const P: usize>(rng: &mut Rng, rep: &mut Report) -> Option<Vec<u128>>
where
    F: Fl + AsPrimitive<Pr>,
    Pr: BitArray + AsPrimitive<usize> + AsPrimitive<F> + Into<u32>,
    usize: AsPrimitive<Pr> + AsPrimitive<F>,
    u32: AsPrimitive<Pr>,
{
    use constriction::stream::{stack::AnsCoder, Decode, Encode};
    let is32 = F::NAME == "f32";
    let n = (4 + rng.next() % 8) as usize;
    let n = n.min((pow2(P as u32) as usize).saturating_sub(2)).max(2);
    let v: Vec<f64> = (0..n).map(|_| 0.1 + ((rng.next() >> 11) as f64 / (1u64 << 53) as f64)).collect();
    let tbl = to_bits_list(&v, is32);
    let probs: Vec<F> = tbl.iter().map(|&b| F::from_bits_u(b)).collect();
    let sum: F = probs.iter().copied().sum();
    let short = (n / 3).max(1).min(n - 1);
    let mut modes: Vec<BufMode> = Vec::new();
    for k in 0..5 {
        modes.push(BufMode::ShrinkAfter(k, short));
        modes.push(BufMode::GrowAfter(k, short));
        modes.push(BufMode::EmptyAfter(k));
    }
    modes.push(BufMode::Alternate(short));
    modes.push(BufMode::Alternate(0));
    let qmax = pow2(P as u32) - 1;
    for mode in modes {
        for with_norm in [true, false] {
            let desc = |op: &str| {
                format!(
                    "quant.lazy {} {:x} {:x} {} {} | {} # lazy model over an AsRef buffer that is not stable: {:?} (counter reset before the query)",
                    F::NAME, Pr::BITS, P, if with_norm { format!("{:x}", sum.bits_u()) } else { "-".into() }, show_list(tbl.clone()), op, mode
                )
            };
            let calls = std::rc::Rc::new(std::cell::Cell::new(0usize));
            set_case(&desc("new"));
            rep.eval("C20");
            rep.count(&format!("any.advbuf.{}", format!("{:?}", mode).split('(').next().unwrap()));
            let built = guarded(|| {
                LazyContiguousCategoricalEntropyModel::<Pr, F, AdvPmf<F>, P>::from_floating_point_probabilities_fast(
                    AdvPmf { full: probs.clone(), mode, calls: calls.clone() },
                    if with_norm { Some(sum) } else { None },
                )
            });
            let model = match built {
                Ok(Ok(m)) => m,
                _ => {
                    rep.count("any.advbuf.ctor-rejected-or-panicked");
                    continue;
                }
            };
            let mut symbols: Vec<usize> = vec![0, 1, short.saturating_sub(1), short, short + 1, n - 1, n, n + 1, 2 * n, usize::MAX];
            symbols.dedup();
            for &sy in &symbols {
                set_case(&desc(&format!("enc {:x}", sy)));
                calls.set(0);
                rep.eval("C20");
                let r = guarded(|| model.left_cumulative_and_probability(sy).map(|(c, p)| (to_u128(c), to_u128(p.get()))));
                rep.count(match r {
                    Ok(Some(_)) => "any.advbuf.enc.some",
                    Ok(None) => "any.advbuf.enc.none",
                    Err(_) => "any.advbuf.enc.panic",
                });
                // a symbol whose `Borrow` flips between an in-support and this value
                set_case(&desc(&format!("enc flip({:x},{:x})", 0, sy)));
                calls.set(0);
                rep.eval("C20");
                let _ = guarded(|| model.left_cumulative_and_probability(FlipSym { vals: [0, sy], calls: std::cell::Cell::new(0) }).is_some());
                let _ = guarded(|| model.left_cumulative_and_probability(FlipSym { vals: [sy, 0], calls: std::cell::Cell::new(0) }).is_some());
            }
            for q in [0, 1, qmax / 2, qmax.saturating_sub(1), qmax] {
                set_case(&desc(&format!("dec {:x}", q)));
                calls.set(0);
                rep.eval("C20");
                let _ = guarded(|| model.quantile_function(from_u128(q)).0);
            }
            set_case(&desc("support_size"));
            calls.set(0);
            rep.eval("C20");
            let _ = guarded(|| model.support_size());
            // through an ANS coder: encode symbols across and beyond the support, then decode
            set_case(&desc("ans: encode 0, short, n-1, n | decode x4"));
            calls.set(0);
            rep.eval("C20");
            let _ = guarded(|| {
                let mut ans = AnsCoder::<u32, u64>::new();
                for sy in [0usize, short, n - 1, n] {
                    let _ = ans.encode_symbol(sy, &model);
                }
                let mut out = Vec::new();
                for _ in 0..4 {
                    out.push(ans.decode_symbol(&model).ok());
                }
                out
            });
        }
    }
    None
}
perfect_combos!(dispatch_oracle_adv_buffer, oracle_adv_buffer, (rng: &mut Rng, rep: &mut Report) (rng, rep) -> Option<Vec<u128>>);

/// a `Distribution` that is not even a function: every call returns another value (interior
/// mutability) — the leaky quantizer must still only answer or panic
#[derive(Clone)]
struct ChaosDist {
    state: std::rc::Rc<std::cell::Cell<u64>>,
    span: f64,
}
impl ChaosDist {
    fn nextf(&self) -> f64 {
        let mut r = Rng(self.state.get());
        let x = (r.next() >> 11) as f64 / (1u64 << 53) as f64;
        self.state.set(r.0);
        x
    }
}
impl Distribution for ChaosDist {
    type Value = f64;
    fn distribution(&self, _x: f64) -> f64 {
        match (self.nextf() * 8.0) as u32 {
            0 => f64::NAN,
            1 => 2.0,
            2 => -0.25,
            _ => self.nextf() * 1.2 - 0.1,
        }
    }
}
impl Inverse for ChaosDist {
    fn inverse(&self, _p: f64) -> f64 {
        (self.nextf() - 0.5) * self.span
    }
}

/// C20 for a non-deterministic distribution and symbols with an unstable `Borrow`
fn oracle_chaos_leaky(rng: &mut Rng, rep: &mut Report) {
    let state = std::rc::Rc::new(std::cell::Cell::new(rng.next()));
    let (lo, hi) = (-((rng.next() % 100) as i16) - 1, (rng.next() % 100) as i16 + 1);
    let desc = format!("quant.leaky i16 10 c {} {} rec <non-deterministic Distribution: every call returns another value (seed {:x})>", sym_hex("i16", lo as i128), sym_hex("i16", hi as i128), state.get());
    set_case(&desc);
    let quantizer = LeakyQuantizer::<f64, i16, u16, 12>::new(lo..=hi);
    let model = quantizer.quantize(ChaosDist { state: state.clone(), span: 400.0 });
    for s in (lo as i32 - 2)..=(hi as i32 + 2) {
        rep.eval("C20");
        let _ = guarded(|| model.left_cumulative_and_probability(s as i16).is_some());
    }
    for q in (0..4096u16).step_by(37) {
        rep.eval("C20");
        let _ = guarded(|| model.quantile_function(q).0);
    }
    rep.eval("C20");
    let _ = guarded(|| model.symbol_table().count());
    let _ = guarded(|| model.to_generic_encoder_model().support_size());
    rep.count("any.chaos-distribution");
}

pub const TINY_REGIMES: &[&str] = &["scale-just-finite", "scale-at-overflow", "scale-just-inf", "scale-far-inf", "scale-tiny"];

/// class "tiny but normal normalization" (and its mirror "huge normalization"): a table whose
/// float sum sits just above / at / just below the point where `free_weight / sum` overflows the
/// float type — there the eager constructors (shared `fast_quantized_cdf`) and the lazy model
/// (own copy of the arithmetic) must still agree bit for bit (`0 * inf = NaN -> 0`, saturation).
/// Returns the table (exact values of the target float type, as `f64`) and its left-to-right sum
/// in the target float type.
pub fn tiny_norm_case(rng: &mut Rng, is32: bool, p: u32, regime: usize) -> (Vec<f64>, f64) {
    let unit = |r: &mut Rng| (r.next() >> 11) as f64 / (1u64 << 53) as f64;
    let (fmax, fmin, sub) = if is32 { (f32::MAX as f64, f32::MIN_POSITIVE as f64, f32::from_bits(1) as f64) } else { (f64::MAX, f64::MIN_POSITIVE, f64::from_bits(1)) };
    let n = (3 + rng.next() % 6) as usize;
    let n = n.min((pow2(p) as usize).saturating_sub(2)).max(2);
    let free = (pow2(p) - n as u128) as f64;
    let star = free / fmax; // sums below this make `free / sum` overflow
    let target = match regime {
        0 => star * (1.0 + 1e-6 + unit(rng)),          // scale finite, close to MAX
        1 => star * (1.0 + (rng.next() % 5) as f64 * if is32 { 6e-8 } else { 1.2e-16 } - if is32 { 1.2e-7 } else { 2.4e-16 }),
        2 => star * (0.5 + 0.4999 * unit(rng)),        // scale = inf
        3 => (star * 1e-3).max(fmin * (1.0 + unit(rng))), // far below, still a normal float
        _ => fmax * *rng.pick(&[0.24, 0.5, 0.99]),     // mirror: scale underflows towards subnormal
    };
    // weights with a leading zero, interior zeros and subnormal entries
    let mut w: Vec<f64> = (0..n).map(|_| if rng.chance(1, 4) { 0.0 } else { 0.05 + unit(rng) }).collect();
    if rng.chance(1, 2) {
        w[0] = 0.0;
    }
    if w.iter().all(|&x| x == 0.0) {
        w[n - 1] = 1.0;
    }
    let tot: f64 = w.iter().sum();
    let mut v: Vec<f64> = w.iter().map(|x| x / tot * target).collect();
    if regime < 4 && rng.chance(1, 2) {
        let i = (rng.next() % n as u64) as usize;
        v[i] = sub * (1 + rng.next() % 3) as f64; // a subnormal entry
    }
    // round to the target type and sum left to right in it
    if is32 {
        let v32: Vec<f32> = v.iter().map(|&x| x as f32).collect();
        let sum = v32.iter().fold(-0.0f32, |a, &b| a + b);
        (v32.iter().map(|&x| x as f64).collect(), sum as f64)
    } else {
        let sum = v.iter().fold(-0.0f64, |a, &b| a + b);
        (v, sum)
    }
}

/// eager vs lazy (and the other `…_fast` kinds) on the tiny / huge normalisation class
fn oracle_tiny_norm<F, Pr, const P: usize>(rng: &mut Rng, rep: &mut Report)
where
    F: Fl + AsPrimitive<Pr>,
    Pr: BitArray + AsPrimitive<usize> + AsPrimitive<F>,
    usize: AsPrimitive<Pr> + AsPrimitive<F>,
{
    let is32 = F::NAME == "f32";
    for (regime, name) in TINY_REGIMES.iter().enumerate() {
        for with_norm in [false, true] {
            let (v, sum) = tiny_norm_case(rng, is32, P as u32, regime);
            let tbl = to_bits_list(&v, is32);
            let tok = if with_norm { norm_token(Some(sum), is32) } else { "-".to_string() };
            let nb: Option<u128> = if with_norm { parse_hex(&tok) } else { None };
            rep.count(&format!("any.tinynorm.{}.P{}.{}", F::NAME, P, name));
            check_fast_ctors::<F, Pr, P>(&tbl, nb, &tok, None, rng, rep);
        }
    }
}
fp_combos!(dispatch_oracle_tiny_norm, oracle_tiny_norm, (rng: &mut Rng, rep: &mut Report) (rng, rep) -> ());

/// directed *length* classes around `2^B` (`B = Probability::BITS ∈ {8, 16}`): a table whose
/// length wraps to a small value when narrowed to `Probability` must still be rejected; all-zero
/// weights with one spike at the first / last-in-range (`2^B - 1`) / last position
fn oracle_directed_lengths<F, Pr, const P: usize>(rng: &mut Rng, rep: &mut Report)
where
    F: Fl + AsPrimitive<Pr>,
    Pr: BitArray + AsPrimitive<usize> + AsPrimitive<F>,
    usize: AsPrimitive<Pr> + AsPrimitive<F>,
{
    if Pr::BITS > 16 {
        return;
    }
    let is32 = F::NAME == "f32";
    let full = 1usize << Pr::BITS;
    for len in [full - 1, full, full + 1, full + 2, 2 * full + 1] {
        for spike in [0, full - 1, len - 1] {
            if spike >= len {
                continue;
            }
            let mut v = vec![0.0f64; len];
            v[spike] = 1.0;
            let tbl = to_bits_list(&v, is32);
            rep.count(&format!("any.lengths.B{}.P{}", Pr::BITS, if P == Pr::BITS { "==BITS" } else { "<BITS" }));
            // more than `2^P` symbols cannot all get a nonzero probability: documented error
            let must = if len > (1usize << P) { Some("more-than-2^P-entries") } else { None };
            check_fast_ctors::<F, Pr, P>(&tbl, None, "-", must, rng, rep);
        }
    }
}
fp_combos!(dispatch_oracle_directed_lengths, oracle_directed_lengths, (rng: &mut Rng, rep: &mut Report) (rng, rep) -> ());

/// the same length classes for the lookup constructors
fn oracle_directed_lengths_lookup<F, Pr, const P: usize>(rng: &mut Rng, rep: &mut Report)
where
    F: Fl + AsPrimitive<Pr>,
    Pr: BitArray + AsPrimitive<usize> + Into<usize> + Into<f64>,
    usize: AsPrimitive<Pr> + AsPrimitive<F>,
    f64: AsPrimitive<Pr>,
{
    let is32 = F::NAME == "f32";
    let p = P as u32;
    let full = 1usize << Pr::BITS;
    let _ = rng;
    for len in [full - 1, full, full + 1, full + 2, 2 * full + 1] {
        for spike in [0, full - 1, len - 1] {
            if spike >= len {
                continue;
            }
            let mut v = vec![0.0f64; len];
            v[spike] = 1.0;
            let tbl = to_bits_list(&v, is32);
            let probs: Vec<F> = tbl.iter().map(|&b| F::from_bits_u(b)).collect();
            let n = len;
            let must = if len > (1usize << P) { Some("more-than-2^P-entries") } else { None };
            // (the table is all zeros except for one `1.0` at index `spike`)
            let line = |ctor: &str| format!("quant.fast {} {} {:x} {:x} - <{} entries: 0.0 except 1.0 at index {}>", ctor, F::NAME, Pr::BITS, P, len, spike);
            let tr = |x: (usize, Pr, Pr::NonZero)| -> Triple { (x.0 as u128, to_u128(x.1), to_u128(x.2.get())) };
            let mut r1 = Rng(len as u64 ^ 0x51);
            set_case(&line("lkc"));
            report_ctor(rep, &line("lkc"), "lkc", must, guarded(|| {
                match ContiguousLookupDecoderModel::<Pr, Vec<Pr>, Box<[Pr]>, P>::from_floating_point_probabilities_fast(&probs, None) {
                    Err(()) => Ok(None),
                    Ok(m) => {
                        let table: Vec<Triple> = m.symbol_table().map(tr).collect();
                        lookup_table_check(&m, p, &table)?;
                        let dec = |q: u128| tr(m.quantile_function(from_u128(q)));
                        Ok(Some(views_check(p, n, None, Some(table), Some(&dec), &mut r1)?))
                    }
                }
            }));
            let mut r2 = Rng(len as u64 ^ 0x52);
            set_case(&line("lknc"));
            report_ctor(rep, &line("lknc"), "lknc", must, guarded(|| {
                match NonContiguousLookupDecoderModel::<usize, Pr, Vec<(Pr, usize)>, Box<[Pr]>, P>::from_symbols_and_floating_point_probabilities_fast(0..n, &probs, None) {
                    Err(()) => Ok(None),
                    Ok(m) => {
                        let table: Vec<Triple> = m.symbol_table().map(tr).collect();
                        lookup_table_check(&m, p, &table)?;
                        let dec = |q: u128| tr(m.quantile_function(from_u128(q)));
                        Ok(Some(views_check(p, n, None, Some(table), Some(&dec), &mut r2)?))
                    }
                }
            }));
        }
    }
}
lookup_combos!(dispatch_oracle_directed_lengths_lookup, oracle_directed_lengths_lookup, (rng: &mut Rng, rep: &mut Report) (rng, rep) -> ());

fp_combos!(dispatch_oracle_directed_fast, oracle_directed_fast, (rng: &mut Rng, rep: &mut Report) (rng, rep) -> ());
lookup_combos!(dispatch_oracle_directed_lookup, oracle_directed_lookup, (rng: &mut Rng, rep: &mut Report) (rng, rep) -> ());
perfect_combos!(dispatch_oracle_directed_perfect, oracle_directed_perfect, (rng: &mut Rng, rep: &mut Report) (rng, rep) -> Option<Vec<u128>>);
fp_combos!(dispatch_oracle_fast, oracle_fast_one, (rng: &mut Rng, rep: &mut Report) (rng, rep) -> ());
lookup_combos!(dispatch_oracle_lookup, oracle_lookup_one, (rng: &mut Rng, rep: &mut Report) (rng, rep) -> ());
perfect_combos!(dispatch_oracle_perfect, oracle_perfect_one, (rng: &mut Rng, rep: &mut Report) (rng, rep) -> Option<Vec<u128>>);

/// C03 / C05 / C09 for one quantised model, with the spec's hint and a set of wrong hints
fn oracle_leaky_generic<S, Pr, const P: usize>(spec: &LeakySpec, rng: &mut Rng, rep: &mut Report) -> Option<()>
where
    S: PrimInt + AsPrimitive<Pr> + AsPrimitive<usize> + Into<f64> + WrappingSub + WrappingAdd + Debug + std::hash::Hash + Default + 'static,
    Pr: BitArray + Into<f64> + Into<u32>,
    u32: AsPrimitive<Pr>,
    f64: AsPrimitive<Pr> + AsPrimitive<S>,
    usize: AsPrimitive<S>,
{
    let replay = leaky_line_text(spec, &[], &[]);
    set_case(&replay);
    let built = spec.base.build();
    let rec: RecCdf = RefCell::new(Vec::new());
    let inv: RecInv = RefCell::new(Vec::new());
    let (tlo, thi) = sym_range(spec.sym);
    let to_s = |v: i128| -> S { <S as num_traits::NumCast>::from(v).unwrap() };
    let total = pow2(P as u32);
    let size = (spec.max - spec.min) as u128 + 1;
    rep.count(&format!("leaky.{}.B{}.P{}", spec.sym, Pr::BITS, P));
    rep.count(&format!("leaky.dist.{}", spec.base.tokens().split(' ').next().unwrap()));
    if tlo < 0 && (spec.max - spec.min) > thi {
        // signed symbol type, support wider than Symbol::MAX: `symbol - min` does not fit `Symbol`
        rep.count(&format!("any.leaky.signed-wide-support.{}.B{}.P{}", spec.sym, Pr::BITS, P));
    }
    if spec.min == tlo || spec.max == thi {
        rep.count(if spec.min == tlo && spec.max == thi { "any.leaky.support.whole-type" } else { "any.leaky.support.touches-type-end" });
    }

    let quantizer = match guarded(|| LeakyQuantizer::<f64, S, Pr, P>::new(to_s(spec.min)..=to_s(spec.max))) {
        Ok(q) => q,
        Err(class) => {
            rep.eval("C19");
            rep.fail("C19", format!("{} # valid support rejected: {}", replay, class));
            return Some(());
        }
    };
    rep.eval("C19");
    let is_u = spec.base.is_u();
    // the hints to try: the spec's own and a fixed set of wrong ones
    let mut hints: Vec<HintMode> = vec![spec.hint];
    if is_u {
        hints.extend([HintMode::ConstU(0), HintMode::ConstU(usize::MAX), HintMode::ConstU(spec.max as usize), HintMode::ConstU((1usize << 31) + 7)]);
    } else {
        hints.extend([
            HintMode::ConstF(1e9),
            HintMode::ConstF(-1e9),
            HintMode::ConstF(f64::NAN),
            HintMode::ConstF(f64::INFINITY),
            HintMode::ConstF(f64::NEG_INFINITY),
            HintMode::ConstF(spec.min as f64),
            HintMode::ConstF(spec.max as f64),
            HintMode::ConstF(tlo as f64),
            HintMode::ConstF(thi as f64),
            HintMode::Noisy(rng.next(), 1e6),
        ]);
    }
    let res = guarded(|| -> Vec<(&'static str, String)> {
        let mut fails: Vec<(&'static str, String)> = Vec::new();
        let model_f = quantizer.quantize(RecF { d: &built, hint: spec.hint, rec: &rec, inv: &inv });
        // encoder view: all symbols (or a contiguous window plus samples for huge supports)
        let full = size <= 66000;
        let syms: Vec<i128> = if full {
            (spec.min..=spec.max).collect()
        } else {
            let mut v: Vec<i128> = (0..3000).map(|i| spec.min + i).collect();
            v.extend((0..3000).rev().map(|i| spec.max - i));
            v
        };
        let enc = |s: i128| -> Option<(u128, u128)> { model_f.left_cumulative_and_probability(to_s(s)).map(|(c, p)| (to_u128(c), to_u128(p.get()))) };
        let mut table: Vec<Triple> = Vec::new();
        for &s in &syms {
            rec.borrow_mut().clear();
            match enc(s) {
                None => {
                    fails.push(("C03", format!("symbol {} inside the support has probability zero", s)));
                    return fails;
                }
                Some((c, p)) => table.push(((s as u128) & ((1u128 << 64) - 1), c, p)),
            }
        }
        // C03: tiling, non-empty bins, none of probability one
        let mut ok = table[0].1 == 0 && table.last().map(|e| e.1 + e.2) == Some(total);
        for w in table.windows(2) {
            let contiguous = w[0].1 + w[0].2 == w[1].1;
            // a gap is expected exactly once for huge supports (between the two windows)
            if !contiguous && full {
                ok = false;
            }
            if !full && !contiguous && w[0].1 + w[0].2 > w[1].1 {
                ok = false;
            }
        }
        if table.iter().any(|e| e.2 == 0 || e.2 >= total) {
            ok = false;
        }
        if !ok {
            fails.push(("C03", "encoder view is not a tiling of [0, 2^P) by non-empty proper bins".into()));
            return fails;
        }
        // C09: zero outside the support, for every out-of-support value tried
        for s in [spec.min - 1, spec.max + 1, tlo, thi, spec.min - 1000, spec.max + 1000, 0, -1, 1 << 16, (1 << 16) + 1, -(1 << 15) - 1] {
            if s >= tlo && s <= thi && (s < spec.min || s > spec.max) {
                if enc(s).is_some() {
                    fails.push(("C09", format!("out-of-support symbol {} has nonzero probability", s)));
                }
            }
        }
        // C09 through the coders: ImpossibleSymbol, coder untouched
        {
            let bad: Vec<S> = [spec.min - 1, spec.max + 1, tlo, thi, spec.min - 2, spec.max + 2, spec.max + 256, spec.min - 256, spec.max + 65536]
                .iter()
                .filter(|&&s| s >= tlo && s <= thi && (s < spec.min || s > spec.max))
                .map(|&s| to_s(s))
                .collect();
            let valid: Vec<S> = vec![to_s(spec.min), to_s(spec.max)];
            let line = |s: &S| format!("{} | enc {} -", replay, sym_hex(spec.sym, s.to_i128().unwrap()));
            let mut local = Report::default();
            c09_through_coders::<_, P>(&model_f, &valid, &bad, &line, &mut local);
            for (prop, what) in local.fails {
                fails.push((if prop == "C09" { "C09raw" } else { "C20raw" }, what));
            }
            fails.push(("c09evals", format!("{}", bad.len())));
        }
        // C05: iterated symbol table == direct queries; generic conversions.  Each runs under
        // its own guard: a panic of the iterator (or of a conversion built on it) while every
        // direct query succeeded is a failure of C05 / C03, not just "some panic"
        if full {
            set_case(&format!("{} | table -", replay));
            let key = |s: S| (s.to_i128().unwrap() as u128) & ((1u128 << 64) - 1);
            match guarded(|| model_f.symbol_table().map(|(s, c, p)| (key(s), to_u128(c), to_u128(p.get()))).collect::<Vec<Triple>>()) {
                Err(class) => {
                    let what = format!("symbol_table() panicked ({}) although left_cumulative_and_probability succeeds for every symbol of the support", class);
                    fails.push(("C05", what.clone()));
                    fails.push(("C03", what));
                }
                Ok(it) => {
                    if it.len() != table.len() {
                        fails.push(("C05", format!("symbol_table() yields {} entries, the support has {} symbols", it.len(), table.len())));
                    } else if let Some(i) = (0..it.len()).find(|&i| it[i] != table[i]) {
                        fails.push(("C05", format!(
                            "symbol_table() entry {} is {:x}:{:x}:{:x} but left_cumulative_and_probability({}) = ({:x}, {:x})",
                            i, it[i].0, it[i].1, it[i].2, syms[i], table[i].1, table[i].2
                        )));
                    }
                }
            }
            // the provided `Iterator` methods of the table iterator (`nth`, `skip`, `step_by`, `last`,
            // `count`, `size_hint`) agree with plain `next()` iteration
            {
                let mut fork = rng.fork();
                match guarded(|| iter_forms(&mut || model_f.symbol_table(), &|(s, c, p)| format!("{:x}:{:x}:{:x}", key(s), to_u128(c), to_u128(p.get())), &mut fork)) {
                    Ok(Ok(_)) => {}
                    Ok(Err(t)) => fails.push(("C05", format!("symbol_table(): {}", t))),
                    Err(class) => fails.push(("C05", format!("symbol_table(): an Iterator adaptor method panicked ({})", class))),
                }
            }
            match guarded(|| model_f.to_generic_encoder_model()) {
                Err(class) => {
                    let what = format!("to_generic_encoder_model() panicked ({}) although every direct query succeeds", class);
                    fails.push(("C05", what.clone()));
                    fails.push(("C03", what));
                }
                Ok(ge) => {
                    for (i, &s) in syms.iter().enumerate() {
                        let g = ge.left_cumulative_and_probability(to_s(s)).map(|(c, p)| (to_u128(c), to_u128(p.get())));
                        if g != Some((table[i].1, table[i].2)) {
                            fails.push(("C05", format!("to_generic_encoder_model differs at {}", s)));
                            break;
                        }
                    }
                    if ge.left_cumulative_and_probability(to_s((spec.min - 1).max(tlo))).is_some() && spec.min > tlo {
                        fails.push(("C09", "generic encoder accepts an out-of-support symbol".into()));
                    }
                }
            }
            match guarded(|| model_f.to_generic_decoder_model()) {
                Err(class) => {
                    let what = format!("to_generic_decoder_model() panicked ({}) although every direct query succeeds", class);
                    fails.push(("C05", what.clone()));
                    fails.push(("C03", what));
                }
                Ok(gd) => {
                    let mut r3 = rng.fork();
                    for q in quantiles_for(&mut r3, P as u32, &table, 300) {
                        let (s, c, p) = gd.quantile_function(from_u128(q));
                        let got = Some((key(s), to_u128(c), to_u128(p.get())));
                        if got != table_find(&table, q) {
                            fails.push(("C05", format!("to_generic_decoder_model differs at quantile {:x}", q)));
                            break;
                        }
                    }
                }
            }
        }
        // C03: decoder ∘ encoder for every (sampled) quantile and every hint
        let mut r2 = rng.fork();
        let qs = quantiles_for(&mut r2, P as u32, &table, 300);
        for h in &hints {
            let check = |q: u128, got: (i128, u128, u128)| -> Option<String> {
                let want = table_find(&table, q);
                let g = Some(((got.0 as u128) & ((1u128 << 64) - 1), got.1, got.2));
                if full || want.is_some() {
                    if g != want {
                        return Some(format!("hint {:?}: dec({:x}) = {:?}, encoder view {:?}", h, q, got, want));
                    }
                } else {
                    // huge support: the symbol was not tabulated; ask the encoder directly
                    let e = enc(got.0);
                    if e != Some((got.1, got.2)) || !(got.1 <= q && q < got.1 + got.2) {
                        return Some(format!("hint {:?}: dec({:x}) = {:?} inconsistent with enc = {:?}", h, q, got, e));
                    }
                }
                None
            };
            let mut bad = None;
            if is_u {
                let m = quantizer.quantize(RecU { d: &built, hint: *h, rec: &rec, inv: &inv });
                for &q in &qs {
                    rec.borrow_mut().clear();
                    inv.borrow_mut().clear();
                    let (s, c, p) = m.quantile_function(from_u128(q));
                    bad = check(q, (s.to_i128().unwrap(), to_u128(c), to_u128(p.get())));
                    if bad.is_some() {
                        break;
                    }
                }
            } else {
                let m = quantizer.quantize(RecF { d: &built, hint: *h, rec: &rec, inv: &inv });
                for &q in &qs {
                    rec.borrow_mut().clear();
                    inv.borrow_mut().clear();
                    let (s, c, p) = m.quantile_function(from_u128(q));
                    bad = check(q, (s.to_i128().unwrap(), to_u128(c), to_u128(p.get())));
                    if bad.is_some() {
                        break;
                    }
                }
            }
            if let Some(b) = bad {
                fails.push(("C03", b));
                break;
            }
        }
        fails.push(("evals", format!("{} {} {}", table.len(), qs.len() * hints.len(), if full { table.len() } else { 0 })));
        fails
    });
    rep.eval("C20");
    match res {
        Err(class) => {
            rep.fail("C20", format!("{} # {}", replay, class));
            rep.fail("C10", format!("{} # encoder or decoder panicked ({})", replay, class));
        }
        Ok(fails) => {
            for (prop, what) in fails {
                if prop == "c09evals" {
                    *rep.evals.entry("C09".into()).or_insert(0) += what.parse::<u64>().unwrap();
                } else if prop == "C09raw" || prop == "C20raw" {
                    rep.fail(&prop[..3], what);
                } else if prop == "evals" {
                    let v: Vec<u64> = what.split(' ').map(|x| x.parse().unwrap()).collect();
                    for _ in 0..v[0] {
                        rep.eval("C09");
                    }
                    *rep.evals.entry("C03".into()).or_insert(0) += v[0] + v[1];
                    // v[1] = quantile_function evaluations (every hint × quantile): in-support
                    // symbol whose bin contains the quantile, no panic
                    *rep.evals.entry("C10".into()).or_insert(0) += v[1];
                    *rep.evals.entry("C05".into()).or_insert(0) += v[2];
                } else {
                    if what.contains("dec(") {
                        rep.fail("C10", format!("{} # {}", replay, what));
                    }
                    rep.fail(prop, format!("{} # {}", replay, what));
                }
            }
            rep.sample("C03", || replay.clone());
        }
    }
    Some(())
}

macro_rules! leaky_oracle_dispatch {
    ([$(($S:ty, $ss:literal)),*], $bp:tt) => {
        fn dispatch_leaky_oracle(spec: &LeakySpec, rng: &mut Rng, rep: &mut Report) -> Option<()> {
            $( if spec.sym == $ss { return leaky_oracle_dispatch!(@bp $S, spec, rng, rep, $bp); } )*
            None
        }
    };
    (@bp $S:ty, $spec:ident, $rng:ident, $rep:ident, [$(($Pr:ty, $P:literal)),*]) => {{
        $( if $spec.b == <$Pr>::BITS as u32 && $spec.p == $P { return oracle_leaky_generic::<$S, $Pr, $P>($spec, $rng, $rep); } )*
        None
    }};
}
leaky_oracle_dispatch!(
    [(u8, "u8"), (i8, "i8"), (u16, "u16"), (i16, "i16"), (u32, "u32"), (i32, "i32")],
    [(u8, 1), (u8, 4), (u8, 8), (u16, 8), (u16, 12), (u16, 16), (u32, 12), (u32, 24), (u32, 32)]
);

/// directed cells: signed symbol type × support wider than `Symbol::MAX` (so that `symbol - min`
/// does not fit the symbol type and only the wrapping `slack()` is correct) × every (B, P)
pub fn wide_signed_specs(rng: &mut Rng) -> Vec<LeakySpec> {
    let mut out = Vec::new();
    let unit = |r: &mut Rng| (r.next() >> 11) as f64 / (1u64 << 53) as f64;
    let cells: &[(&'static str, &[(i128, i128)])] = &[
        ("i8", &[(-100, 100), (-128, 127), (-128, 126), (-127, 127), (-1, 127)]),
        ("i16", &[(-20000, 20000), (-32768, 32767), (-32768, 1), (-100, 32767)]),
    ];
    for (sym, supports) in cells {
        for &(min, max) in supports.iter() {
            for (b, ps) in LEAKY_BP {
                for &p in ps.iter() {
                    if ((max - min) as u128) + 1 > pow2(p) {
                        continue;
                    }
                    let loc = min as f64 + unit(rng) * (max - min) as f64;
                    let scale = (max - min) as f64 * (0.02 + 0.5 * unit(rng));
                    let base = match rng.next() % 3 {
                        0 => Base::Gauss(loc, scale),
                        1 => Base::Cauchy(loc, scale),
                        _ => Base::Laplace(loc, scale),
                    };
                    out.push(LeakySpec { sym, b: *b, p, min, max, base, hint: HintMode::True });
                }
            }
        }
    }
    out
}

/// C19 / C09 for `LeakyQuantizer::new`: accepted iff 2 <= size <= 2^P, for every symbol type
fn oracle_new(rng: &mut Rng, rep: &mut Report) {
    let line = gen_new_line(rng);
    let segs = segments(&line);
    let h = &segs[0];
    let (sym, b, p) = (h[1], parse_hex(h[2]).unwrap() as u32, parse_hex(h[3]).unwrap() as u32);
    let (mn, mx) = (parse_sym(sym, h[4]).unwrap(), parse_sym(sym, h[5]).unwrap());
    let out = dispatch_new(sym, b, p, mn, mx).unwrap_or("unsupported".into());
    rep.eval("C19");
    rep.eval("C20");
    let size_m1 = mx - mn;
    let should_accept = size_m1 >= 1 && (size_m1 as u128) <= pow2(p) - 1;
    let accepted = out.starts_with("ok ");
    rep.count(if accepted { "new.accepted" } else { "new.rejected" });
    if accepted != should_accept {
        rep.fail("C19", format!("{} # got {} but support size - 1 = {}", line, out, size_m1));
    } else if accepted && out != format!("ok {:x}", pow2(p) - 1 - size_m1 as u128) {
        rep.fail("C19", format!("{} # wrong free weight {}", line, out));
    }
}

// ---- C18 diagnostics: independent high-precision evaluation -----------------------------

/// double-double (unevaluated sum of two `f64`)
#[derive(Clone, Copy, Debug)]
struct DD(f64, f64);

fn two_sum(a: f64, b: f64) -> (f64, f64) {
    let s = a + b;
    let bb = s - a;
    (s, (a - (s - bb)) + (b - bb))
}
fn two_prod(a: f64, b: f64) -> (f64, f64) {
    let p = a * b;
    (p, a.mul_add(b, -p))
}
impl DD {
    fn from(x: f64) -> DD {
        DD(x, 0.0)
    }
    fn add(self, o: DD) -> DD {
        let (s, e) = two_sum(self.0, o.0);
        let e = e + (self.1 + o.1);
        let (s, e) = two_sum(s, e);
        DD(s, e)
    }
    fn neg(self) -> DD {
        DD(-self.0, -self.1)
    }
    fn mul_f(self, x: f64) -> DD {
        let (p, e) = two_prod(self.0, x);
        let e = e + self.1 * x;
        let (s, e) = two_sum(p, e);
        DD(s, e)
    }
    fn val(self) -> f64 {
        self.0 + self.1
    }
}

/// `log2` of `m / 2^63` for `2^63 <= m < 2^64` (i.e. of a number in `[1, 2)`), by repeated
/// squaring in integer arithmetic: 62 fractional bits, no floating point involved.
fn log2_frac_fixed(m: u64) -> u64 {
    let mut x: u128 = m as u128; // Q1.63
    let mut r: u64 = 0;
    for i in 1..=62 {
        x = (x * x) >> 63;
        if x >= (1u128 << 64) {
            r |= 1u64 << (62 - i);
            x >>= 1;
        }
    }
    r // fraction = r / 2^62
}

/// high-precision `log2` of a positive finite `f64` (exact integer part, 62-bit fraction)
fn log2_hp(x: f64) -> DD {
    assert!(x > 0.0 && x.is_finite());
    let bits = x.to_bits();
    let mut e = ((bits >> 52) & 0x7ff) as i64;
    let mut mant = bits & ((1u64 << 52) - 1);
    if e == 0 {
        // subnormal: normalise
        let sh = mant.leading_zeros() as i64 - 11;
        mant <<= sh;
        mant &= (1u64 << 52) - 1;
        e = 1 - sh;
    }
    let m = (1u64 << 63) | (mant << 11);
    let r = log2_frac_fixed(m);
    let hi = (r >> 9) as f64 / (1u64 << 53) as f64;
    let lo = (r & 0x1ff) as f64 / (1u64 << 62) as f64;
    DD::from((e - 1023) as f64).add(DD(hi, 0.0)).add(DD(lo, 0.0))
}

/// textbook definitions evaluated independently: `probs` are the model's fixed-point
/// probabilities (`Σ = 2^P`), `q` the floating-point reference distribution
struct Textbook {
    entropy: f64,
    cross: f64,
    rev_cross: f64,
    kl: f64,
    rev_kl: f64,
    /// Σ |terms| of each, for the tolerance
    mag: [f64; 5],
}

fn textbook(p: u32, probs: &[u128], q: &[f64]) -> Textbook {
    let total = 2f64.powi(p as i32);
    let pf = p as f64;
    let mut h = DD::from(0.0);
    let mut cross = DD::from(0.0);
    let mut rcross = DD::from(0.0);
    let mut kl = DD::from(0.0);
    let mut rkl = DD::from(0.0);
    let mut mag = [0f64; 5];
    for (i, &pi) in probs.iter().enumerate() {
        let x = pi as f64 / total; // exact
        let lx = log2_hp(pi as f64).add(DD::from(-pf)); // log2(p_i / 2^P)
        // H = - Σ x log2 x
        let t = lx.mul_f(x).neg();
        h = h.add(t);
        mag[0] += (pi as f64 * (pi as f64).log2()).abs() / total;
        if let Some(&qi) = q.get(i) {
            // H(q, model) = - Σ q log2 x
            let t = lx.mul_f(qi).neg();
            cross = cross.add(t);
            mag[1] += (qi * (pf + (pi as f64).log2().abs())).abs();
            if qi > 0.0 {
                let lq = log2_hp(qi);
                // H(model, q) = - Σ x log2 q
                rcross = rcross.add(lq.mul_f(x).neg());
                mag[2] += (pi as f64 * lq.val()).abs() / total;
                // KL(q || model) = Σ q (log2 q - log2 x)
                kl = kl.add(lq.add(lx.neg()).mul_f(qi));
                mag[3] += qi * (lq.val().abs() + (pi as f64).log2().abs()) + pf * qi;
                // KL(model || q) = Σ x (log2 x - log2 q)
                rkl = rkl.add(lx.add(lq.neg()).mul_f(x));
                mag[4] += pi as f64 * ((pi as f64).log2().abs() + lq.val().abs()) / total + pf;
            }
        }
    }
    Textbook { entropy: h.val(), cross: cross.val(), rev_cross: rcross.val(), kl: kl.val(), rev_kl: rkl.val(), mag }
}

fn oracle_diag_model<'m, M, const P: usize>(model: &'m M, q: &[f64], replay: &str, rep: &mut Report)
where
    M: IterableEntropyModel<'m, P>,
    M::Probability: Into<f64>,
    f64: From<M::Probability>,
{
    let table: Vec<(u128, u128)> = model.symbol_table().map(|(_, c, p)| (to_u128(c), to_u128(p.get()))).collect();
    let probs: Vec<u128> = table.iter().map(|x| x.1).collect();
    let n = probs.len();
    let tb = textbook(P as u32, &probs, q);
    let eps = f64::EPSILON;
    let tol = |mag: f64| 4.0 * (n as f64 + 8.0) * eps * (mag + 1.0);
    let mut check = |name: &str, got: f64, want: f64, mag: f64, rep: &mut Report| {
        rep.eval("C18");
        let err = (got - want).abs();
        if !(err <= tol(mag)) {
            rep.fail("C18", format!("{} # {}: crate {:e} textbook {:e} |diff| {:e} > tol {:e}", replay, name, got, want, err, tol(mag)));
        }
    };
    check("entropy_base2", model.entropy_base2::<f64>(), tb.entropy, tb.mag[0] + P as f64, rep);
    check("cross_entropy_base2", model.cross_entropy_base2::<f64>(q.iter().copied()), tb.cross, tb.mag[1], rep);
    // forward KL: zeros of q contribute nothing
    check("kl_divergence_base2", model.kl_divergence_base2::<f64>(q.iter().copied()), tb.kl, tb.mag[3], rep);
    if q.iter().all(|&x| x > 0.0) {
        check("reverse_cross_entropy_base2", model.reverse_cross_entropy_base2::<f64>(q.iter().copied()), tb.rev_cross, tb.mag[2], rep);
        check("reverse_kl_divergence_base2", model.reverse_kl_divergence_base2::<f64>(q.iter().copied()), tb.rev_kl, tb.mag[4], rep);
    }
    // floating-point symbol table: exact
    let total = 2f64.powi(P as i32);
    let fp: Vec<(f64, f64)> = model.floating_point_symbol_table::<f64>().map(|(_, c, p)| (c, p)).collect();
    rep.eval("C18");
    if fp.len() != n || fp.iter().zip(table.iter()).any(|(a, b)| a.0 != b.0 as f64 / total || a.1 != b.1 as f64 / total) {
        rep.fail("C18", format!("{} # floating_point_symbol_table is not cumulative/2^P, probability/2^P", replay));
    }
}

/// the same diagnostics evaluated by the crate in `f32` (models with `Probability: Into<f32>`)
fn oracle_diag_model_f32<'m, M, const P: usize>(model: &'m M, q: &[f64], replay: &str, rep: &mut Report)
where
    M: IterableEntropyModel<'m, P>,
    M::Probability: Into<f32>,
    f32: From<M::Probability>,
{
    let table: Vec<(u128, u128)> = model.symbol_table().map(|(_, c, p)| (to_u128(c), to_u128(p.get()))).collect();
    let probs: Vec<u128> = table.iter().map(|x| x.1).collect();
    let n = probs.len();
    // the reference distribution as the crate sees it: rounded to `f32`
    let q32: Vec<f32> = q.iter().map(|&x| x as f32).collect();
    let qd: Vec<f64> = q32.iter().map(|&x| x as f64).collect();
    let tb = textbook(P as u32, &probs, &qd);
    let eps = f32::EPSILON as f64;
    let tol = |mag: f64| 4.0 * (n as f64 + 8.0) * eps * (mag + 1.0);
    let mut check = |name: &str, got: f32, want: f64, mag: f64, rep: &mut Report| {
        rep.eval("C18");
        let err = (got as f64 - want).abs();
        if !(err <= tol(mag)) {
            rep.fail("C18", format!("{} # f32 {}: crate {:e} textbook {:e} |diff| {:e} > tol {:e}", replay, name, got, want, err, tol(mag)));
        }
    };
    check("entropy_base2", model.entropy_base2::<f32>(), tb.entropy, tb.mag[0] + P as f64, rep);
    check("cross_entropy_base2", model.cross_entropy_base2::<f32>(q32.iter().copied()), tb.cross, tb.mag[1], rep);
    check("kl_divergence_base2", model.kl_divergence_base2::<f32>(q32.iter().copied()), tb.kl, tb.mag[3], rep);
    if q32.iter().all(|&x| x > 0.0) {
        check("reverse_cross_entropy_base2", model.reverse_cross_entropy_base2::<f32>(q32.iter().copied()), tb.rev_cross, tb.mag[2], rep);
        check("reverse_kl_divergence_base2", model.reverse_kl_divergence_base2::<f32>(q32.iter().copied()), tb.rev_kl, tb.mag[4], rep);
    }
    let total = 2f32.powi(P as i32);
    let fp: Vec<(f32, f32)> = model.floating_point_symbol_table::<f32>().map(|(_, c, p)| (c, p)).collect();
    rep.eval("C18");
    if fp.len() != n || fp.iter().zip(table.iter()).any(|(a, b)| a.0 != b.0 as f32 / total || a.1 != b.1 as f32 / total) {
        rep.fail("C18", format!("{} # f32 floating_point_symbol_table is not cumulative/2^P, probability/2^P", replay));
    }
}

/// `EncoderModel::floating_point_probability`: exactly `probability / 2^P`, zero outside the support
fn oracle_fp_probability<M, const P: usize>(model: &M, table: &[(usize, u128)], outside: &[usize], replay: &str, rep: &mut Report)
where
    M: EncoderModel<P, Symbol = usize>,
    M::Probability: Into<f64>,
{
    let total = 2f64.powi(P as i32);
    for &(s, p) in table {
        rep.eval("C18");
        let got: f64 = model.floating_point_probability::<f64>(s);
        if got != p as f64 / total {
            rep.fail("C18", format!("{} # floating_point_probability({}) = {:e}, expected {}/2^{}", replay, s, got, p, P));
            return;
        }
    }
    for &s in outside {
        rep.eval("C18");
        if model.floating_point_probability::<f64>(s) != 0.0 {
            rep.fail("C18", format!("{} # floating_point_probability({}) nonzero outside the support", replay, s));
        }
    }
}

/// the diagnostics *overrides* of the non-contiguous models (own implementations of
/// `entropy_base2` / `floating_point_symbol_table`; the encoder model sums in hash-map order)
fn oracle_diag_noncontiguous(rng: &mut Rng, w: &[f64], q: &[f64], rep: &mut Report) {
    let n = w.len();
    let tbl = show_list(w.iter().map(|x| x.to_bits() as u128));
    let replay = format!("quant.fast ncdec f64 10 c - {} # q={:?}", tbl, q);
    let dec = NonContiguousCategoricalDecoderModel::<usize, u16, Vec<(u16, usize)>, 12>::from_symbols_and_floating_point_probabilities_fast(0..n, w, None);
    let enc = NonContiguousCategoricalEncoderModel::<usize, u16, 12>::from_symbols_and_floating_point_probabilities_fast(0..n, w, None);
    if let (Ok(dec), Ok(enc)) = (dec, enc) {
        oracle_diag_model::<_, 12>(&dec, q, &replay, rep);
        oracle_diag_model_f32::<_, 12>(&dec, q, &replay, rep);
        let probs: Vec<u128> = dec.symbol_table().map(|(_, _, p)| p.get() as u128).collect();
        let tb = textbook(12, &probs, q);
        let tol64 = 4.0 * (n as f64 + 8.0) * f64::EPSILON * (tb.mag[0] + 13.0);
        let tol32 = 4.0 * (n as f64 + 8.0) * f32::EPSILON as f64 * (tb.mag[0] + 13.0);
        rep.eval("C18");
        let e64: f64 = enc.entropy_base2::<f64>();
        if !((e64 - tb.entropy).abs() <= tol64) {
            rep.fail("C18", format!("{} # NonContiguousCategoricalEncoderModel::entropy_base2::<f64> {:e} textbook {:e}", replay, e64, tb.entropy));
        }
        rep.eval("C18");
        let e32: f32 = enc.entropy_base2::<f32>();
        if !((e32 as f64 - tb.entropy).abs() <= tol32) {
            rep.fail("C18", format!("{} # NonContiguousCategoricalEncoderModel::entropy_base2::<f32> {:e} textbook {:e}", replay, e32, tb.entropy));
        }
        let t: Vec<(usize, u128)> = probs.iter().enumerate().map(|(s, &p)| (s, p)).collect();
        oracle_fp_probability::<_, 12>(&enc, &t, &[n, n + 1, usize::MAX], &replay, rep);
    }
    let _ = rng;
}

fn gen_q(rng: &mut Rng, n: usize, with_zeros: bool) -> Vec<f64> {
    let mut v = gen_weights(rng, n, false);
    for x in v.iter_mut() {
        if !(*x > 0.0) || !x.is_finite() {
            *x = if with_zeros { 0.0 } else { 1e-9 };
        }
    }
    if with_zeros && n > 0 && rng.chance(1, 2) {
        let i = (rng.next() % n as u64) as usize;
        v[i] = 0.0;
    }
    let sum: f64 = v.iter().sum();
    if !(sum > 0.0) || !sum.is_finite() {
        return vec![1.0 / n as f64; n];
    }
    let v: Vec<f64> = v.iter().map(|x| x / sum).collect();
    if v.iter().any(|x| !x.is_finite()) || (!with_zeros && v.iter().any(|&x| x == 0.0)) {
        return vec![1.0 / n as f64; n];
    }
    v
}

fn oracle_diag(rng: &mut Rng, rep: &mut Report) {
    // categorical models (fixed-point tables from the fast constructor)
    let n = 2 + (rng.next() % 60) as usize;
    let w = gen_weights(rng, n, false);
    let w: Vec<f64> = w.iter().map(|x| if x.is_finite() && *x >= 0.0 { *x } else { 0.0 }).collect();
    let wz = rng.chance(1, 2);
    let q = gen_q(rng, n, wz);
    let tbl = show_list(w.iter().map(|x| x.to_bits() as u128));
    match rng.next() % 3 {
        0 => {
            if let Ok(m) = ContiguousCategoricalEntropyModel::<u32, Vec<u32>, 24>::from_floating_point_probabilities_fast(&w, None) {
                oracle_diag_model::<_, 24>(&m, &q, &format!("quant.fast cont f64 20 18 - {} # q={:?}", tbl, q), rep);
            }
        }
        1 => {
            if let Ok(m) = ContiguousCategoricalEntropyModel::<u16, Vec<u16>, 12>::from_floating_point_probabilities_fast(&w, None) {
                let replay = format!("quant.fast cont f64 10 c - {} # q={:?}", tbl, q);
                oracle_diag_model::<_, 12>(&m, &q, &replay, rep);
                oracle_diag_model_f32::<_, 12>(&m, &q, &replay, rep);
                let t: Vec<(usize, u128)> = m.symbol_table().map(|(s, _, p)| (s, p.get() as u128)).collect();
                oracle_fp_probability::<_, 12>(&m, &t, &[n, n + 7, usize::MAX], &replay, rep);
            }
            oracle_diag_noncontiguous(rng, &w, &q, rep);
        }
        _ => {
            if let Ok(m) = ContiguousCategoricalEntropyModel::<u32, Vec<u32>, 32>::from_floating_point_probabilities_fast(&w, None) {
                oracle_diag_model::<_, 32>(&m, &q, &format!("quant.fast cont f64 20 20 - {} # q={:?}", tbl, q), rep);
            }
        }
    }
    // quantised models
    let lo = -((rng.next() % 50) as i32) - 1;
    let hi = (rng.next() % 50) as i32 + 1;
    let sigma = 0.1 + (rng.next() % 1000) as f64 / 10.0;
    let mu = (rng.next() % 100) as f64 - 50.0;
    let quantizer = LeakyQuantizer::<f64, i32, u32, 24>::new(lo..=hi);
    let m = quantizer.quantize(Gaussian::new(mu, sigma));
    let wz = rng.chance(1, 2);
    let q = gen_q(rng, (hi - lo + 1) as usize, wz);
    oracle_diag_model::<_, 24>(&m, &q, &format!("leaky i32 u32 24 {}..={} gauss {} {} # q={:?}", lo, hi, mu, sigma, q), rep);
}

pub fn oracle(rng: &mut Rng, tier: &str, rep: &mut Report) {
    let k = if tier == "thorough" { 20 } else { 1 };
    let fnames = ["f32", "f64"];
    // directed invalid-argument classes: every constructor kind × float type × (B, P)
    for _ in 0..k {
        for f in fnames {
            for (b, ps) in FP_BP {
                for p in ps.iter() {
                    dispatch_oracle_directed_fast(f, *b, *p, rng, rep);
                }
            }
            for (b, ps) in LOOKUP_BP {
                for p in ps.iter() {
                    dispatch_oracle_directed_lookup(f, *b, *p, rng, rep);
                }
            }
            for (b, ps) in PERFECT_BP {
                for p in ps.iter() {
                    dispatch_oracle_directed_perfect(f, *b, *p, rng, rep);
                }
            }
        }
    }
    // caller-chosen safe-trait parameters that are not stable (AsRef buffer of the lazy model,
    // Borrow symbols, a non-deterministic Distribution): no UB-check abort
    for _ in 0..k {
        for f in fnames {
            for (b, ps) in PERFECT_BP {
                for p in ps.iter() {
                    dispatch_oracle_adv_buffer(f, *b, *p, rng, rep);
                }
            }
        }
        for _ in 0..20 {
            oracle_chaos_leaky(rng, rep);
        }
    }
    // tiny / huge normalisation: eager vs lazy at the overflow point of `free_weight / sum`
    for _ in 0..4 * k {
        for f in fnames {
            for (b, ps) in FP_BP {
                for p in ps.iter() {
                    dispatch_oracle_tiny_norm(f, *b, *p, rng, rep);
                }
            }
        }
    }
    // directed length classes around 2^B and C09 through the coders: every cell, every run
    for f in fnames {
        for (b, ps) in FP_BP {
            for p in ps.iter() {
                dispatch_oracle_directed_lengths(f, *b, *p, rng, rep);
            }
        }
        for (b, ps) in LOOKUP_BP {
            for p in ps.iter() {
                dispatch_oracle_directed_lengths_lookup(f, *b, *p, rng, rep);
            }
        }
    }
    for _ in 0..25 * k {
        for f in fnames {
            for (b, ps) in PERFECT_BP {
                for p in ps.iter() {
                    dispatch_oracle_c09(f, *b, *p, rng, rep);
                }
            }
        }
    }
    for _ in 0..3000 * k {
        let (b, p) = pick_bp(rng, FP_BP);
        let f = *rng.pick(&fnames);
        dispatch_oracle_fast(f, b, p, rng, rep);
    }
    for _ in 0..300 * k {
        let (b, p) = pick_bp(rng, LOOKUP_BP);
        let f = *rng.pick(&fnames);
        dispatch_oracle_lookup(f, b, p, rng, rep);
    }
    for _ in 0..1000 * k {
        let (b, p) = pick_bp(rng, PERFECT_BP);
        let f = *rng.pick(&fnames);
        dispatch_oracle_perfect(f, b, p, rng, rep);
    }
    for _ in 0..2000 * k {
        oracle_new(rng, rep);
    }
    for _ in 0..k {
        for spec in wide_signed_specs(rng) {
            dispatch_leaky_oracle(&spec, rng, rep);
        }
    }
    for i in 0..1000 * k {
        // mostly small supports (every quantile × every hint), some huge ones
        let spec = gen_leaky_spec(rng, if i % 8 == 0 { 1 << 20 } else { 400 });
        dispatch_leaky_oracle(&spec, rng, rep);
    }
    for _ in 0..60 * k {
        oracle_badcdf(rng, rep);
    }
    for _ in 0..1500 * k {
        oracle_diag(rng, rep);
    }
}
