//! Cross-front-end check (C06, "Rust and Python front ends agree"): recompute, with the Rust
//! API that `/repo/src/pybindings` itself calls, the cases that `tools/pyfront.py` produced
//! through the Python front end, and compare compressed words and decoded symbols.
//!
//! Input: one flat JSON object per line (written by `tools/pyfront.py`, which owns the other
//! end of this format).  Values are integers, strings without escapes, or flat integer arrays:
//!
//!   id       case number                      tag     free text identifying seed/tier (echoed)
//!   coder    "ans" | "range" | "chain"
//!   model    "cat" | "gauss" | "laplace" | "cauchy" | "uniform" | "bernoulli" | "binomial"
//!   variant  cat: "fast" | "lazy" | "perfect";  bernoulli: "fast" | "perfect";  else ""
//!   fbits    32 | 64: element width of every float *array* (scalars are always f64 bits)
//!   n        number of symbols
//!   cat:     family 0|1, ncols, probs = flat bit patterns (1 row if family = 0, else n rows)
//!   others:  lo, hi (quantizer support); p0kind/p1kind "s" (scalar given to the constructor),
//!            "a" (per-symbol array given to encode/decode) or "-" (no such parameter);
//!            p0, p1 = [one entry] or [n entries]; floats as bit patterns, ints as values
//!   msg      symbols (ans, range)             data    input words (chain, `seal=True`)
//!   pywords  Python `get_compressed()`        pydecoded  Python `decode(..)`
//!   chain:   pyprefix, pysuffix = `get_remainders()`; pyrecprefix, pyrecsuffix =
//!            `get_data(unseal=True)` after `encode_reverse` of the decoded symbols
//!   lay_*    memory layouts in which the Python side passed its numpy arrays (reversed / strided
//!            views, F-ordered matrices, …): informative only — all arrays above are the *logical*
//!            contents, so the words computed here are what any layout must produce
//!
//! Which Rust constructors correspond to which Python call was read off
//! `/repo/src/pybindings/stream/model.rs` and `model/internals.rs` (see `build_one`).
#![allow(unused)]
use crate::util::*;
use constriction::stream::chain::DefaultChainCoder;
use constriction::stream::model::{
    DecoderModel, DefaultContiguousCategoricalEntropyModel,
    DefaultLazyContiguousCategoricalEntropyModel, DefaultLeakyQuantizer, EncoderModel,
    EntropyModel, UniformModel,
};
use constriction::stream::queue::{DefaultRangeDecoder, DefaultRangeEncoder};
use constriction::stream::stack::DefaultAnsCoder;
use constriction::stream::{Decode, Encode};
use core::borrow::Borrow;
use core::num::NonZeroU32;
use std::collections::BTreeMap;

// ---------------------------------------------------------------------------------------
// tiny parser for the flat JSON lines

#[derive(Debug, Clone)]
enum J {
    Int(i128),
    Str(String),
    Arr(Vec<i128>),
}

struct P<'a> {
    s: &'a [u8],
    i: usize,
}

impl<'a> P<'a> {
    fn ws(&mut self) {
        while self.i < self.s.len() && (self.s[self.i] as char).is_ascii_whitespace() {
            self.i += 1;
        }
    }
    fn eat(&mut self, c: u8) -> Option<()> {
        self.ws();
        if self.i < self.s.len() && self.s[self.i] == c {
            self.i += 1;
            Some(())
        } else {
            None
        }
    }
    fn peek(&mut self) -> Option<u8> {
        self.ws();
        self.s.get(self.i).copied()
    }
    fn string(&mut self) -> Option<String> {
        self.eat(b'"')?;
        let start = self.i;
        while self.i < self.s.len() && self.s[self.i] != b'"' {
            if self.s[self.i] == b'\\' {
                return None; // escapes are never emitted
            }
            self.i += 1;
        }
        let r = std::str::from_utf8(&self.s[start..self.i]).ok()?.to_string();
        self.eat(b'"')?;
        Some(r)
    }
    fn int(&mut self) -> Option<i128> {
        self.ws();
        let start = self.i;
        if self.i < self.s.len() && self.s[self.i] == b'-' {
            self.i += 1;
        }
        while self.i < self.s.len() && self.s[self.i].is_ascii_digit() {
            self.i += 1;
        }
        std::str::from_utf8(&self.s[start..self.i]).ok()?.parse::<i128>().ok()
    }
    fn value(&mut self) -> Option<J> {
        match self.peek()? {
            b'"' => Some(J::Str(self.string()?)),
            b'[' => {
                self.eat(b'[')?;
                let mut v = Vec::new();
                if self.peek()? == b']' {
                    self.eat(b']')?;
                    return Some(J::Arr(v));
                }
                loop {
                    v.push(self.int()?);
                    match self.peek()? {
                        b',' => {
                            self.eat(b',')?;
                        }
                        b']' => {
                            self.eat(b']')?;
                            return Some(J::Arr(v));
                        }
                        _ => return None,
                    }
                }
            }
            _ => Some(J::Int(self.int()?)),
        }
    }
    fn object(&mut self) -> Option<BTreeMap<String, J>> {
        let mut m = BTreeMap::new();
        self.eat(b'{')?;
        if self.peek()? == b'}' {
            self.eat(b'}')?;
            return Some(m);
        }
        loop {
            let k = self.string()?;
            self.eat(b':')?;
            let v = self.value()?;
            m.insert(k, v);
            match self.peek()? {
                b',' => {
                    self.eat(b',')?;
                }
                b'}' => {
                    self.eat(b'}')?;
                    self.ws();
                    return if self.i == self.s.len() { Some(m) } else { None };
                }
                _ => return None,
            }
        }
    }
}

fn parse_line(line: &str) -> Option<BTreeMap<String, J>> {
    P { s: line.as_bytes(), i: 0 }.object()
}

struct Case(BTreeMap<String, J>);

impl Case {
    fn int(&self, k: &str) -> Result<i128, String> {
        match self.0.get(k) {
            Some(J::Int(x)) => Ok(*x),
            _ => Err(format!("missing integer field `{}`", k)),
        }
    }
    fn str(&self, k: &str) -> Result<&str, String> {
        match self.0.get(k) {
            Some(J::Str(x)) => Ok(x.as_str()),
            _ => Err(format!("missing string field `{}`", k)),
        }
    }
    fn arr(&self, k: &str) -> Result<&[i128], String> {
        match self.0.get(k) {
            Some(J::Arr(x)) => Ok(x.as_slice()),
            _ => Err(format!("missing array field `{}`", k)),
        }
    }
    fn i32s(&self, k: &str) -> Result<Vec<i32>, String> {
        self.arr(k)?
            .iter()
            .map(|&x| i32::try_from(x).map_err(|_| format!("`{}`: {} is not an i32", k, x)))
            .collect()
    }
    fn u32s(&self, k: &str) -> Result<Vec<u32>, String> {
        self.arr(k)?
            .iter()
            .map(|&x| u32::try_from(x).map_err(|_| format!("`{}`: {} is not a u32", k, x)))
            .collect()
    }
}

// ---------------------------------------------------------------------------------------
// the type-erased model the bindings use (`DefaultEntropyModel` + `EncoderDecoderModel`)

trait DynModel {
    fn lcp(&self, symbol: i32) -> Option<(u32, NonZeroU32)>;
    fn qf(&self, quantile: u32) -> (i32, u32, NonZeroU32);
}

#[derive(Clone, Copy)]
struct W<'a>(&'a dyn DynModel);

impl EntropyModel<24> for W<'_> {
    type Symbol = i32;
    type Probability = u32;
}
impl EncoderModel<24> for W<'_> {
    fn left_cumulative_and_probability(&self, symbol: impl Borrow<i32>) -> Option<(u32, NonZeroU32)> {
        self.0.lcp(*symbol.borrow())
    }
}
impl DecoderModel<24> for W<'_> {
    fn quantile_function(&self, quantile: u32) -> (i32, u32, NonZeroU32) {
        self.0.qf(quantile)
    }
}

/// models over `usize` symbols: the bindings cast `symbol as usize` / `symbol as i32`
macro_rules! dyn_usize {
    ([$($gen:tt)*] $ty:ty) => {
        impl<$($gen)*> DynModel for $ty {
            fn lcp(&self, symbol: i32) -> Option<(u32, NonZeroU32)> {
                EncoderModel::<24>::left_cumulative_and_probability(self, symbol as usize)
            }
            fn qf(&self, quantile: u32) -> (i32, u32, NonZeroU32) {
                let (s, c, p) = DecoderModel::<24>::quantile_function(self, quantile);
                (s as i32, c, p)
            }
        }
    };
}
dyn_usize!([] DefaultContiguousCategoricalEntropyModel);
dyn_usize!([] DefaultLazyContiguousCategoricalEntropyModel<f32, Vec<f32>>);
dyn_usize!([] DefaultLazyContiguousCategoricalEntropyModel<f64, Vec<f64>>);
dyn_usize!([] UniformModel<u32, 24>);

/// models over `i32` symbols (leakily quantized distributions)
struct Direct<M>(M);
impl<M> DynModel for Direct<M>
where
    M: EncoderModel<24, Symbol = i32, Probability = u32> + DecoderModel<24>,
{
    fn lcp(&self, symbol: i32) -> Option<(u32, NonZeroU32)> {
        self.0.left_cumulative_and_probability(symbol)
    }
    fn qf(&self, quantile: u32) -> (i32, u32, NonZeroU32) {
        self.0.quantile_function(quantile)
    }
}

fn f_of(bits: i128, fbits: i128) -> Result<f64, String> {
    if fbits == 32 {
        let b = u32::try_from(bits).map_err(|_| "f32 bit pattern out of range".to_string())?;
        Ok(f32::from_bits(b) as f64) // the bindings cast f32 arrays to f64 (`cast_f64`)
    } else {
        let b = u64::try_from(bits).map_err(|_| "f64 bit pattern out of range".to_string())?;
        Ok(f64::from_bits(b))
    }
}

fn cat_rows_f32(bits: &[i128]) -> Result<Vec<f32>, String> {
    bits.iter()
        .map(|&b| u32::try_from(b).map(f32::from_bits).map_err(|_| "f32 bit pattern out of range".to_string()))
        .collect()
}
fn cat_rows_f64(bits: &[i128]) -> Result<Vec<f64>, String> {
    bits.iter()
        .map(|&b| u64::try_from(b).map(f64::from_bits).map_err(|_| "f64 bit pattern out of range".to_string()))
        .collect()
}

/// `Categorical(p, lazy=.., perfect=..)` and the rows of a `Categorical(perfect=..)` family
/// (`parameterize_categorical` in model.rs resp. internals.rs).
fn build_cat(variant: &str, fbits: i128, row: &[i128]) -> Result<Box<dyn DynModel>, String> {
    let bad = |()| "Rust constructor rejected the probabilities".to_string();
    Ok(match (variant, fbits) {
        ("fast", 32) => Box::new(
            DefaultContiguousCategoricalEntropyModel::from_floating_point_probabilities_fast(&cat_rows_f32(row)?, None)
                .map_err(bad)?,
        ),
        ("fast", 64) => Box::new(
            DefaultContiguousCategoricalEntropyModel::from_floating_point_probabilities_fast(&cat_rows_f64(row)?, None)
                .map_err(bad)?,
        ),
        ("perfect", 32) => Box::new(
            DefaultContiguousCategoricalEntropyModel::from_floating_point_probabilities_perfect(&cat_rows_f32(row)?)
                .map_err(bad)?,
        ),
        ("perfect", 64) => Box::new(
            DefaultContiguousCategoricalEntropyModel::from_floating_point_probabilities_perfect(&cat_rows_f64(row)?)
                .map_err(bad)?,
        ),
        ("lazy", 32) => Box::new(
            DefaultLazyContiguousCategoricalEntropyModel::<f32, Vec<f32>>::from_floating_point_probabilities_fast(
                cat_rows_f32(row)?,
                None,
            )
            .map_err(bad)?,
        ),
        ("lazy", 64) => Box::new(
            DefaultLazyContiguousCategoricalEntropyModel::<f64, Vec<f64>>::from_floating_point_probabilities_fast(
                cat_rows_f64(row)?,
                None,
            )
            .map_err(bad)?,
        ),
        _ => return Err(format!("unknown categorical variant {}/{}", variant, fbits)),
    })
}

#[derive(Debug, Clone, Copy)]
struct MeanHintBinomial {
    inner: probability::distribution::Binomial,
    mean: usize,
}

impl probability::distribution::Distribution for MeanHintBinomial {
    type Value = usize;
    fn distribution(&self, x: f64) -> f64 {
        self.inner.distribution(x)
    }
}

impl probability::distribution::Inverse for MeanHintBinomial {
    fn inverse(&self, _p: f64) -> usize {
        self.mean
    }
}

/// one fully parameterised non-categorical model
fn build_one(model: &str, variant: &str, lo: i32, hi: i32, p0: i128, p0f: f64, p1f: f64) -> Result<Box<dyn DynModel>, String> {
    use probability::distribution::{Binomial, Cauchy, Gaussian, Laplace};
    Ok(match model {
        "gauss" | "laplace" | "cauchy" => {
            if !(p1f > 0.0) {
                return Err("scale parameter not positive (generator error)".into());
            }
            let q = DefaultLeakyQuantizer::<f64, i32>::new(lo..=hi);
            match model {
                "gauss" => Box::new(Direct(q.quantize(Gaussian::new(p0f, p1f)))),
                "laplace" => Box::new(Direct(q.quantize(Laplace::new(p0f, p1f)))),
                _ => Box::new(Direct(q.quantize(Cauchy::new(p0f, p1f)))),
            }
        }
        "uniform" => {
            let size = i32::try_from(p0).map_err(|_| "size is not an i32".to_string())?;
            Box::new(UniformModel::<u32, 24>::new(size as usize))
        }
        "bernoulli" => {
            let p = p0f;
            let probs = [1.0 - p, p];
            let bad = |()| "Rust constructor rejected p".to_string();
            match variant {
                "fast" => Box::new(
                    DefaultContiguousCategoricalEntropyModel::from_floating_point_probabilities_fast(&probs, None)
                        .map_err(bad)?,
                ),
                _ => Box::new(
                    DefaultContiguousCategoricalEntropyModel::from_floating_point_probabilities_perfect(&probs)
                        .map_err(bad)?,
                ),
            }
        }
        "binomial" => {
            let n = i32::try_from(p0).map_err(|_| "n is not an i32".to_string())?;
            let q = DefaultLeakyQuantizer::<f64, i32>::new(0..=n);
            // Mirror of the bindings' `BinomialDistribution` (fix fe1c0d7/920cc66 in /repo): the
            // dependency's `Binomial::inverse` does not terminate for some valid parameters, and the
            // search result does not depend on the hint (theorem `C03_leaky_search_every_hint`).
            Box::new(Direct(q.quantize(MeanHintBinomial {
                inner: Binomial::new(n as usize, p1f),
                mean: (n as f64 * p1f) as usize,
            })))
        }
        _ => return Err(format!("unknown model {}", model)),
    })
}

/// `(models, concrete)`: one model if `concrete` (the i.i.d. code path of the bindings),
/// otherwise one per symbol.
fn build_models(c: &Case) -> Result<(Vec<Box<dyn DynModel>>, bool), String> {
    let model = c.str("model")?;
    let variant = c.str("variant")?;
    let fbits = c.int("fbits")?;
    let n = c.int("n")? as usize;
    if model == "cat" {
        let ncols = c.int("ncols")? as usize;
        let probs = c.arr("probs")?;
        if c.int("family")? == 0 {
            if probs.len() != ncols {
                return Err("probs/ncols mismatch".into());
            }
            return Ok((vec![build_cat(variant, fbits, probs)?], true));
        }
        if probs.len() != ncols * n || ncols == 0 {
            return Err("probs/ncols/n mismatch".into());
        }
        // family: perfect -> eager perfect model per row, otherwise the lazy model per row
        let v = if variant == "perfect" { "perfect" } else { "lazy" };
        let mut ms = Vec::with_capacity(n);
        for row in probs.chunks_exact(ncols) {
            ms.push(build_cat(v, fbits, row)?);
        }
        return Ok((ms, false));
    }
    let lo = c.int("lo")? as i32;
    let hi = c.int("hi")? as i32;
    let k0 = c.str("p0kind")?;
    let k1 = c.str("p1kind")?;
    let p0 = c.arr("p0")?;
    let p1 = c.arr("p1")?;
    let p0_is_int = model == "uniform" || model == "binomial";
    let concrete = k0 != "a" && k1 != "a";
    let want = |kind: &str, v: &[i128], name: &str| -> Result<(), String> {
        let need = match kind {
            "s" => 1,
            "a" => n,
            _ => 0,
        };
        if v.len() != need {
            Err(format!("{} has {} entries, expected {}", name, v.len(), need))
        } else {
            Ok(())
        }
    };
    want(k0, p0, "p0")?;
    want(k1, p1, "p1")?;
    let at = |kind: &str, v: &[i128], j: usize| -> i128 {
        match kind {
            "s" => v[0],
            "a" => v[j],
            _ => 0,
        }
    };
    let fl = |kind: &str, raw: i128| -> Result<f64, String> {
        match kind {
            "s" => f_of(raw, 64),
            "a" => f_of(raw, fbits),
            _ => Ok(0.0),
        }
    };
    let count = if concrete { 1 } else { n };
    let mut ms = Vec::with_capacity(count);
    for j in 0..count {
        let r0 = at(k0, p0, j);
        let r1 = at(k1, p1, j);
        let p0f = if p0_is_int { 0.0 } else { fl(k0, r0)? };
        let p1f = fl(k1, r1)?;
        ms.push(build_one(model, variant, lo, hi, r0, p0f, p1f)?);
    }
    Ok((ms, concrete))
}

fn show_u32(v: &[u32]) -> String {
    format!("[{}]", v.iter().map(|w| format!("0x{:08x}", w)).collect::<Vec<_>>().join(","))
}
fn show_i32(v: &[i32]) -> String {
    format!("{:?}", v).replace(' ', "")
}

fn first_diff<T: PartialEq>(a: &[T], b: &[T]) -> usize {
    a.iter().zip(b.iter()).position(|(x, y)| x != y).unwrap_or(a.len().min(b.len()))
}

/// `Ok(())` = Rust agrees with Python; `Err(text)` = description of the disagreement
fn run_case(c: &Case) -> Result<(), String> {
    let coder = c.str("coder")?;
    let n = c.int("n")? as usize;
    let (models, concrete) = build_models(c)?;
    let pydecoded = c.i32s("pydecoded")?;
    let m = |j: usize| -> W<'_> {
        if concrete {
            W(&*models[0])
        } else {
            W(&*models[j])
        }
    };
    let cmp_words = |what: &str, rust: &[u32], py: &[u32]| -> Result<(), String> {
        if rust != py {
            Err(format!(
                "{} differ at index {}: rust={} python={}",
                what,
                first_diff(rust, py),
                show_u32(rust),
                show_u32(py)
            ))
        } else {
            Ok(())
        }
    };
    let cmp_syms = |rust: &[i32], py: &[i32]| -> Result<(), String> {
        if rust != py {
            Err(format!(
                "decoded symbols differ at index {}: rust={} python={}",
                first_diff(rust, py),
                show_i32(rust),
                show_i32(py)
            ))
        } else {
            Ok(())
        }
    };
    match coder {
        "ans" => {
            let msg = c.i32s("msg")?;
            if msg.len() != n {
                return Err("msg/n mismatch".into());
            }
            let mut enc = DefaultAnsCoder::new();
            if concrete {
                enc.encode_iid_symbols_reverse(&msg, m(0)).map_err(|e| format!("rust encode error: {:?}", e))?;
            } else {
                for j in (0..n).rev() {
                    enc.encode_symbol(msg[j], m(j)).map_err(|e| format!("rust encode error at {}: {:?}", j, e))?;
                }
            }
            let words: Vec<u32> = enc.get_compressed().map_err(|e| format!("{:?}", e))?.to_vec();
            cmp_words("compressed words", &words, &c.u32s("pywords")?)?;
            let mut dec = DefaultAnsCoder::from_compressed(words).map_err(|_| "rust from_compressed failed".to_string())?;
            let mut out = Vec::with_capacity(n);
            if concrete {
                for s in dec.decode_iid_symbols(n, m(0)) {
                    out.push(s.map_err(|e| format!("{:?}", e))?);
                }
            } else {
                for j in 0..n {
                    out.push(dec.decode_symbol(m(j)).map_err(|e| format!("{:?}", e))?);
                }
            }
            cmp_syms(&out, &pydecoded)
        }
        "range" => {
            let msg = c.i32s("msg")?;
            if msg.len() != n {
                return Err("msg/n mismatch".into());
            }
            let mut enc = DefaultRangeEncoder::new();
            if concrete {
                enc.encode_iid_symbols(&msg, m(0)).map_err(|e| format!("rust encode error: {:?}", e))?;
            } else {
                for j in 0..n {
                    enc.encode_symbol(msg[j], m(j)).map_err(|e| format!("rust encode error at {}: {:?}", j, e))?;
                }
            }
            let words: Vec<u32> = enc.get_compressed().to_vec();
            cmp_words("compressed words", &words, &c.u32s("pywords")?)?;
            let mut dec = DefaultRangeDecoder::from_compressed(words).map_err(|e| format!("{:?}", e))?;
            let mut out = Vec::with_capacity(n);
            if concrete {
                for s in dec.decode_iid_symbols(n, m(0)) {
                    out.push(s.map_err(|e| format!("rust decode error: {:?}", e))?);
                }
            } else {
                for j in 0..n {
                    out.push(dec.decode_symbol(m(j)).map_err(|e| format!("rust decode error at {}: {:?}", j, e))?);
                }
            }
            cmp_syms(&out, &pydecoded)
        }
        "chain" => {
            let data = c.u32s("data")?;
            let mut coder = DefaultChainCoder::from_binary(data).map_err(|_| "rust from_binary failed".to_string())?;
            let mut out = Vec::with_capacity(n);
            if concrete {
                for s in coder.decode_iid_symbols(n, m(0)) {
                    out.push(s.map_err(|e| format!("rust decode error: {:?}", e))?);
                }
            } else {
                for j in 0..n {
                    out.push(coder.decode_symbol(m(j)).map_err(|e| format!("rust decode error at {}: {:?}", j, e))?);
                }
            }
            cmp_syms(&out, &pydecoded)?;
            let (prefix, suffix) = coder.clone().into_remainders().map_err(|e| format!("{:?}", e))?;
            cmp_words("remainders prefix", &prefix, &c.u32s("pyprefix")?)?;
            cmp_words("remainders suffix", &suffix, &c.u32s("pysuffix")?)?;
            if concrete {
                coder.encode_iid_symbols_reverse(&out, m(0)).map_err(|e| format!("rust re-encode error: {:?}", e))?;
            } else {
                for j in (0..n).rev() {
                    coder.encode_symbol(out[j], m(j)).map_err(|e| format!("rust re-encode error at {}: {:?}", j, e))?;
                }
            }
            let (rp, rs) = coder.into_binary().map_err(|_| "rust into_binary failed".to_string())?;
            cmp_words("recovered prefix", &rp, &c.u32s("pyrecprefix")?)?;
            cmp_words("recovered suffix", &rs, &c.u32s("pyrecsuffix")?)
        }
        _ => Err(format!("unknown coder {}", coder)),
    }
}

fn len_bucket(n: usize) -> &'static str {
    match n {
        0 => "0",
        1 => "1",
        2..=9 => "2-9",
        10..=49 => "10-49",
        50..=149 => "50-149",
        _ => "150+",
    }
}

/// `cases` = path of a JSON-lines file written by tools/pyfront.py; results go into `rep`
pub fn run_cases(cases: &str, rep: &mut Report) {
    let text = match std::fs::read_to_string(cases) {
        Ok(t) => t,
        Err(e) => {
            rep.fail("C06", format!("pyfront: cannot read cases file {}: {}", cases, e));
            return;
        }
    };
    for (lineno, line) in text.lines().enumerate() {
        let line = line.trim();
        if line.is_empty() || line.starts_with('#') {
            continue;
        }
        let short = |l: &str| -> String {
            if l.len() <= 3000 {
                l.to_string()
            } else {
                let mut end = 3000;
                while !l.is_char_boundary(end) {
                    end -= 1;
                }
                format!("{}… ({} bytes; full line {} of {})", &l[..end], l.len(), lineno + 1, cases)
            }
        };
        let case = match parse_line(line) {
            Some(m) => Case(m),
            None => {
                rep.fail("C06", format!("pyfront: unparseable case line {} of {}: {}", lineno + 1, cases, short(line)));
                continue;
            }
        };
        let coder = case.str("coder").unwrap_or("?").to_string();
        let model = case.str("model").unwrap_or("?").to_string();
        let variant = case.str("variant").unwrap_or("").to_string();
        let family = match case.0.get("family") {
            Some(J::Int(1)) => true,
            Some(J::Int(_)) => false,
            _ => case.str("p0kind").unwrap_or("") == "a" || case.str("p1kind").unwrap_or("") == "a",
        };
        let fbits = case.int("fbits").unwrap_or(0);
        let n = case.int("n").unwrap_or(0) as usize;
        rep.eval("C06");
        rep.count(&format!("C06.py.rust.{}.{}{}{}", coder, model, if variant.is_empty() { "".into() } else { format!("-{}", variant) }, if family { ".family" } else { ".concrete" }));
        rep.count(&format!("C06.py.rust.f{}", fbits));
        rep.count(&format!("C06.py.rust.len.{}", len_bucket(n)));
        let outcome = match guarded(|| run_case(&case)) {
            Ok(r) => r,
            Err(class) => Err(format!("rust side panicked ({}: {})", class, last_panic())),
        };
        match outcome {
            Ok(()) => {
                rep.sample("C06", || {
                    format!(
                        "python==rust {} {}{} n={} words={}",
                        coder,
                        model,
                        if variant.is_empty() { "".into() } else { format!("-{}", variant) },
                        n,
                        case.u32s("pywords").map(|w| show_u32(&w)).unwrap_or_else(|_| "-".into())
                    )
                });
            }
            Err(text) => {
                let tag = case.str("tag").unwrap_or("").to_string();
                let id = case.int("id").unwrap_or(-1);
                rep.fail(
                    "C06",
                    format!(
                        "python front end vs rust API: {} [{} case {} {} {}{}] case={}",
                        text,
                        tag,
                        id,
                        coder,
                        model,
                        if variant.is_empty() { "".into() } else { format!("-{}", variant) },
                        short(line)
                    ),
                );
            }
        }
    }
}
