//! Cross-front-end check: recompute, with the Rust API, the cases that `tools/pyfront.py`
//! produced through the Python front end (stub; owned by the `pyfront` component author).
#![allow(unused)]
use crate::util::*;

/// `cases` = path of a JSON-lines file written by tools/pyfront.py; results go into `rep`
pub fn run_cases(_cases: &str, _rep: &mut Report) {}
