// ---------------------------------------------------------------------------------------
// generation (included into cat.rs)

/// all compositions of `total` into exactly `k` positive parts
fn compositions(total: u128, k: usize, out: &mut Vec<Vec<u128>>, cur: &mut Vec<u128>) {
    if k == 1 {
        if total >= 1 {
            cur.push(total);
            out.push(cur.clone());
            cur.pop();
        }
        return;
    }
    let mut first = 1;
    while first + (k as u128 - 1) <= total {
        cur.push(first);
        compositions(total - first, k - 1, out, cur);
        cur.pop();
        first += 1;
    }
}

/// every valid probability table with 2..=max_syms symbols at precision `p`
pub fn all_valid_tables(p: u32, max_syms: usize) -> Vec<Vec<u128>> {
    let mut out = Vec::new();
    for k in 2..=max_syms {
        compositions(pow2(p), k, &mut out, &mut Vec::new());
    }
    out
}

/// a random valid table with `n` symbols (n ≥ 2, n ≤ 2^p), biased to extreme entries
pub fn random_table(rng: &mut Rng, p: u32, n: usize) -> Vec<u128> {
    let total = pow2(p);
    let n = (n as u128).clamp(2, total) as usize;
    let mut probs = vec![1u128; n];
    let mut free = total - n as u128;
    match rng.next() % 4 {
        0 => {
            // one symbol takes (almost) everything
            let i = rng.below(n as u128) as usize;
            probs[i] += free;
            free = 0;
        }
        1 => {
            // a few heavy symbols
            for _ in 0..3 {
                let i = rng.below(n as u128) as usize;
                let x = rng.below(free + 1);
                probs[i] += x;
                free -= x;
            }
        }
        _ => {}
    }
    // distribute the rest in random chunks
    let mut guard = 0;
    while free > 0 {
        let i = rng.below(n as u128) as usize;
        let chunk = if guard > 4 * n { free } else { 1 + rng.below(free.min(1 + 2 * total / n as u128)) };
        probs[i] += chunk;
        free -= chunk;
        guard += 1;
    }
    probs
}

fn interesting_symbols(n: usize, labels: Option<&[usize]>, rng: &mut Rng) -> Vec<u128> {
    let mut v: Vec<u128> = Vec::new();
    match labels {
        None => {
            for s in 0..(n.min(6) + 2) {
                v.push(s as u128);
            }
            if n > 6 {
                v.push(n as u128 - 1);
                v.push(n as u128);
                v.push(n as u128 + 1);
                for _ in 0..4 {
                    v.push(rng.below(n as u128));
                }
            }
        }
        Some(ls) => {
            for (i, &l) in ls.iter().enumerate() {
                if i < 6 || rng.chance(1, 8) {
                    v.push(l as u128);
                    v.push((l as u128 + 1) & (u64::MAX as u128));
                }
            }
        }
    }
    // far outside: values that alias in-support symbols after narrowing to u8/u16/u32
    let k = rng.below(n as u128 + 1);
    for base in [1u128 << 8, 1 << 16, 1 << 32] {
        v.push(base - 1);
        v.push(base);
        v.push(base + 1);
        v.push(base + k);
    }
    v.push(u64::MAX as u128);
    v.push(u64::MAX as u128 - 1);
    v.push((1u128 << 63) + k);
    v
}

fn random_labels(rng: &mut Rng, n: usize) -> Vec<usize> {
    let style = rng.next() % 4;
    let mut ls: Vec<usize> = Vec::with_capacity(n);
    let mut seen = std::collections::HashSet::new();
    while ls.len() < n {
        let l = match style {
            0 => ls.len(),                                            // identity
            1 => 3 * ls.len() + 5,                                    // sparse
            2 => (1usize << 32) + 3 * ls.len() + (rng.next() % 3) as usize, // beyond u32
            _ => rng.bits_biased(64) as usize,
        };
        if seen.insert(l) {
            ls.push(l);
        }
    }
    ls
}

fn interesting_quantiles(rng: &mut Rng, b: u32, p: u32, probs: &[u128], lookup: bool) -> Vec<u128> {
    let total = pow2(p);
    let mut v = vec![0, total - 1, total / 2];
    let mut c = 0u128;
    let n = probs.len();
    for (i, &pr) in probs.iter().enumerate() {
        if i < 5 || i + 3 > n || rng.chance(1, 16) {
            if c > 0 {
                v.push(c - 1);
            }
            v.push(c);
            if c + 1 < total {
                v.push(c + 1);
            }
        }
        c += pr;
    }
    for _ in 0..4 {
        v.push(rng.below(total));
    }
    v
}

fn conv_ops_for(kind: &str, b: u32) -> Vec<&'static str> {
    match kind {
        "contig" => vec!["view", "tolookup", "togenenc", "togendec", "togenlookup"],
        "ncdec" => vec!["view", "tolookup", "togenenc", "togendec", "togenlookup"],
        "lookup" => vec!["view", "ascontig", "intocontig", "togenenc", "togendec", "togenlookup"],
        "nclookup" => vec!["view", "asnc", "intonc", "togenenc", "togendec", "togenlookup"],
        "uniform" => vec!["togenenc", "togendec", "togenlookup"],
        _ => vec![],
    }
}

/// which model kind results from a conversion
fn kind_after(kind: &str, op: &str) -> &'static str {
    match (kind, op) {
        (k, "view") => match k {
            "contig" => "contig",
            "ncdec" => "ncdec",
            "lookup" => "lookup",
            _ => "nclookup",
        },
        ("contig", "tolookup") => "lookup",
        ("ncdec", "tolookup") => "nclookup",
        (_, "ascontig") | (_, "intocontig") => "contig",
        (_, "asnc") | (_, "intonc") => "ncdec",
        (_, "togenenc") => "ncenc",
        (_, "togendec") => "ncdec",
        _ => "nclookup",
    }
}

/// the standard battery of queries on the current model
fn query_ops(rng: &mut Rng, kind: &str, b: u32, p: u32, probs: &[u128], labels: Option<&[usize]>, exhaustive: bool) -> Vec<String> {
    let mut ops = Vec::new();
    let total = pow2(p);
    if kind != "ncenc" {
        ops.push("table".to_string());
    }
    if ["contig", "ncdec", "ncenc"].contains(&kind) && rng.chance(1, 2) {
        ops.push("support".into());
    }
    if ["contig", "ncenc", "uniform"].contains(&kind) {
        let syms = interesting_symbols(probs.len(), labels, rng);
        ops.push(format!("encs {}", show_list(syms)));
        if exhaustive && labels.is_none() {
            ops.push(format!("encsweep 0 {:x}", probs.len() + 3));
        }
    }
    if kind != "ncenc" {
        if exhaustive || (p <= 10 && rng.chance(1, 3)) {
            ops.push(format!("decsweep 0 {:x}", total));
        } else {
            ops.push(format!("decs {}", show_list(interesting_quantiles(rng, b, p, probs, false))));
            if p > 10 {
                // both ends of the quantile range, completely
                ops.push("decsweep 0 100".to_string());
                ops.push(format!("decsweep {:x} {:x}", total - 0x100, total));
            }
        }
    }
    ops
}

/// ctor segment for `kind`
fn ctor_seg(kind: &str, b: u32, p: u32, labels: &[usize], probs: &[u128], infer: bool) -> String {
    let given: Vec<u128> = if infer && !probs.is_empty() { probs[..probs.len() - 1].to_vec() } else { probs.to_vec() };
    match kind {
        "contig" | "lookup" => format!("cat.{} {:x} {:x} {} {}", kind, b, p, show_list(given), infer as u8),
        _ => format!(
            "cat.{} {:x} {:x} {} {} {}",
            kind,
            b,
            p,
            show_list(labels.iter().map(|&l| l as u128)),
            show_list(given),
            infer as u8
        ),
    }
}

/// a full line for a *valid* table: ctor, queries, then a chain of conversions with queries
fn valid_line(rng: &mut Rng, kind: &str, b: u32, p: u32, probs: &[u128], infer: bool, exhaustive: bool, chain: usize) -> String {
    valid_line_with(rng, kind, b, p, probs, infer, exhaustive, chain, None)
}

/// like `valid_line`, but the first conversion is `first_op` (conversion matrix)
fn valid_line_with(rng: &mut Rng, kind: &str, b: u32, p: u32, probs: &[u128], infer: bool, exhaustive: bool, chain: usize, first_op: Option<&'static str>) -> String {
    let n = probs.len();
    let labels: Vec<usize> = if ["contig", "lookup"].contains(&kind) { (0..n).collect() } else { random_labels(rng, n) };
    let identity = labels.iter().enumerate().all(|(i, &l)| i == l);
    let lab = if identity { None } else { Some(&labels[..]) };
    let mut line = ctor_seg(kind, b, p, &labels, probs, infer);
    let mut cur = kind.to_string();
    for op in query_ops(rng, &cur, b, p, probs, lab, exhaustive) {
        line.push_str(" | ");
        line.push_str(&op);
    }
    for step in 0..chain {
        let cs = conv_ops_for(&cur, b);
        if cs.is_empty() {
            break;
        }
        let op = match (step, first_op) {
            (0, Some(f)) => f,
            _ => *rng.pick(&cs),
        };
        line.push_str(" | ");
        line.push_str(op);
        if b >= 32 && ["tolookup", "togenlookup"].contains(&op) {
            continue; // `unsupported`: model unchanged
        }
        cur = kind_after(&cur, op).to_string();
        for q in query_ops(rng, &cur, b, p, probs, lab, exhaustive) {
            line.push_str(" | ");
            line.push_str(&q);
        }
    }
    // out-of-contract quantiles last (the lookup models assert and the history ends)
    if cur != "ncenc" && p < b && rng.chance(1, 3) {
        let q = match rng.next() % 3 {
            0 => pow2(p),
            1 => pow2(b) - 1,
            _ => pow2(p) + rng.below(pow2(b) - pow2(p)),
        };
        line.push_str(&format!(" | dec {:x}", q));
    }
    line
}

fn boundary_vals(b: u32, p: u32) -> Vec<u128> {
    let maxv = pow2(b) - 1;
    let t = pow2(p);
    let mut v: Vec<u128> = vec![0, 1, 2, 3, 4, 5, 7, 8, 9, t / 2, t - 1, t, t + 1, pow2(b - 1) - 1, pow2(b - 1), pow2(b - 1) + 1, maxv - 2, maxv - 1, maxv];
    v.retain(|&x| x <= maxv);
    v.sort();
    v.dedup();
    v
}

/// a malformed variant of a valid table
fn malform(rng: &mut Rng, b: u32, p: u32, probs: &[u128]) -> Vec<u128> {
    let maxv = pow2(b) - 1;
    let mut v = probs.to_vec();
    let n = v.len();
    match rng.next() % 12 {
        0 => {
            let i = rng.below(n as u128) as usize;
            v[i] = (v[i] + 1) & maxv;
        }
        1 => {
            let i = rng.below(n as u128) as usize;
            v[i] = v[i].wrapping_sub(1) & maxv;
        }
        2 => {
            let i = rng.below(n as u128 + 1) as usize;
            v.insert(i, 0);
        }
        3 => {
            let i = rng.below(n as u128) as usize;
            v[i] = pow2(p) & maxv;
        }
        4 => {
            let i = rng.below(n as u128) as usize;
            v[i] = maxv;
        }
        5 => {
            // wraps twice (sum = 2·2^B + …) – only meaningful at small n
            let mut w = v.clone();
            w.extend(v.iter().copied());
            if p == b {
                w.extend(v.iter().copied());
            }
            v = w;
        }
        6 => v.clear(),
        7 => v = vec![pow2(p) & maxv],
        8 => v = vec![0],
        9 => {
            v.pop();
        }
        10 => {
            // total + 2^B: one extra full lap
            let i = rng.below(n as u128 + 1) as usize;
            v.insert(i, maxv);
            v.insert(i, 1);
        }
        _ => {
            let i = rng.below(n as u128) as usize;
            v[i] = rng.bits_biased(b);
        }
    }
    v
}

fn malformed_line(rng: &mut Rng, kind: &str, b: u32, p: u32) -> String {
    let maxn = if kind.contains("lookup") { 6 } else { 12 };
    let n = 2 + rng.below((pow2(p) - 1).min(maxn)) as usize;
    let n = n.min(pow2(p) as usize);
    let valid = random_table(rng, p, n);
    let infer = rng.chance(1, 2);
    let mut probs = if rng.chance(3, 4) { malform(rng, b, p, &valid) } else { valid.clone() };
    if kind.contains("lookup") && probs.len() > 16 {
        probs.truncate(16);
    }
    let given: Vec<u128> = if infer && !probs.is_empty() && rng.chance(3, 4) { probs[..probs.len() - 1].to_vec() } else { probs.clone() };
    let nsyms_needed = given.len() + infer as usize;
    let mut labels = random_labels(rng, nsyms_needed.max(1));
    labels.truncate(nsyms_needed);
    // mismatched symbol counts / duplicates
    match rng.next() % 8 {
        0 => {
            labels.pop();
        }
        1 => labels.push(77),
        2 => labels.clear(),
        3 if labels.len() >= 2 => {
            let i = rng.below(labels.len() as u128) as usize;
            let j = rng.below(labels.len() as u128) as usize;
            labels[i] = labels[j];
        }
        4 => {
            labels.push(78);
            labels.push(79);
        }
        _ => {}
    }
    let head = match kind {
        "contig" | "lookup" => format!("cat.{} {:x} {:x} {} {}", kind, b, p, show_list(given.clone()), infer as u8),
        _ => format!(
            "cat.{} {:x} {:x} {} {} {}",
            kind,
            b,
            p,
            show_list(labels.iter().map(|&l| l as u128)),
            show_list(given.clone()),
            infer as u8
        ),
    };
    // if it happens to be accepted, look at it
    let mut line = head;
    if kind != "ncenc" {
        line.push_str(" | table");
        if p <= 8 {
            line.push_str(&format!(" | decsweep 0 {:x}", pow2(p)));
        }
    } else {
        line.push_str(&format!(" | support | encs {}", show_list(labels.iter().map(|&l| l as u128))));
    }
    line
}

const KINDS: [&str; 5] = ["contig", "ncdec", "ncenc", "lookup", "nclookup"];

pub fn gen(rng: &mut Rng, tier: &str, out: &mut Vec<String>) {
    let thorough = tier == "thorough";

    // (A) validator: complete / boundary sweeps ------------------------------------------
    for &p in &[1u32, 2, 3, 8] {
        for infer in 0..2 {
            for n in 0..=2 {
                out.push(format!("cat.valsweep 8 {:x} {:x} {} all", p, n, infer));
            }
            if thorough {
                out.push(format!("cat.valsweep 8 {:x} 3 {} all", p, infer));
            }
            let vals = show_list(boundary_vals(8, p));
            out.push(format!("cat.valsweep 8 {:x} 3 {} {}", p, infer, vals));
            out.push(format!("cat.valsweep 8 {:x} 4 {} {}", p, infer, vals));
        }
    }
    for &(b, ps) in &[(8u32, &[4u32, 7][..]), (16, &[1, 2, 12, 15, 16][..]), (32, &[1, 24, 31, 32][..]), (64, &[1, 63, 64][..])] {
        for &p in ps {
            for infer in 0..2 {
                let vals = show_list(boundary_vals(b, p));
                for n in 0..=(if thorough { 4 } else { 3 }) {
                    out.push(format!("cat.valsweep {:x} {:x} {:x} {} {}", b, p, n, infer, vals));
                }
            }
        }
    }

    // (B) every valid table with ≤ 4 symbols at P ≤ 4: all kinds, every symbol, every quantile
    for &(b, _) in BPS {
        if b == 64 {
            continue; // only (64, 1 | 24 | 63 | 64) are compiled in
        }
        for p in 1..=4u32 {
            let tables = all_valid_tables(p, 4);
            for (ti, probs) in tables.iter().enumerate() {
                for (ki, kind) in KINDS.iter().enumerate() {
                    if b >= 32 && kind.contains("lookup") {
                        continue;
                    }
                    // quick: B = 8 complete; B = 16/32 every table but rotating kinds
                    if !thorough && b != 8 && (ti + ki) % 5 != 0 {
                        continue;
                    }
                    let infer = (ti + ki) % 2 == 1;
                    out.push(valid_line(rng, kind, b, p, probs, infer, true, 2));
                    if thorough {
                        out.push(valid_line(rng, kind, b, p, probs, !infer, true, 3));
                    }
                }
            }
        }
    }

    // (C) random larger tables at every compiled (B, P) ------------------------------------
    let per_bp = if thorough { 160 } else { 12 };
    for &(b, ps) in BPS {
        for &p in ps {
            for i in 0..per_bp {
                let kind = KINDS[(i + rng.next() as usize % 2) % 5];
                if b >= 32 && kind.contains("lookup") {
                    continue;
                }
                let maxn = pow2(p).min(if i % 4 == 0 { 300 } else { 24 });
                let n = match rng.next() % 5 {
                    0 => 2,
                    1 => maxn as usize,
                    _ => 2 + rng.below(maxn - 1) as usize,
                };
                let probs = random_table(rng, p, n);
                let infer = rng.chance(1, 2);
                out.push(valid_line(rng, kind, b, p, &probs, infer, false, 3));
            }
        }
    }

    // (D) malformed stream -----------------------------------------------------------------
    let per_bp = if thorough { 200 } else { 14 };
    for &(b, ps) in BPS {
        for &p in ps {
            for i in 0..per_bp {
                let kind = KINDS[i % 5];
                if b >= 32 && kind.contains("lookup") {
                    // still exercise the `unsupported` answer once in a while
                    if i % 3 != 0 {
                        continue;
                    }
                }
                out.push(malformed_line(rng, kind, b, p));
            }
        }
    }
    // the §7 reproducers, verbatim
    for l in [
        "cat.contig 8 8 0 0 | table",                 // D6
        "cat.ncdec 10 10 61 0 0 | table | dec 5",     // D6
        "cat.lookup 10 10 0 0 | dec 5",               // D6
        "cat.contig 20 18 - 1 | table",               // D7
        "cat.ncenc 20 18 61 - 1 | enc 61",            // D7
        "cat.contig 20 18 1000000 0 | table",         // D15
        "cat.ncdec 20 18 61 1000000 0 | table",       // D15
        "cat.ncenc 20 18 61 1000000 0 | enc 61",      // D15
        "cat.contig 20 20 80000000 1 | table | decs 0,7fffffff,80000000,ffffffff", // D8
        "cat.contig 8 8 64,64 1 | table | decsweep 0 100",                          // D8
        "cat.uniform 20 18 a | encs 3,100000003,a,9,100000009 | decs 0,ffffff",     // D9
        "cat.uniform 8 8 a | encs 3,103,9,109,10a | decsweep 0 100",                // D9
        "cat.fast dec 20 18 3 61 | syms",             // D13
        "cat.fast dec 20 18 3 61,62,63,64 | syms",    // D13
        "cat.fast lookup 10 c 3 61,62 | syms",        // D13
        "cat.fast lookup 10 c 3 61,62,63 | syms | support",
    ] {
        out.push(l.to_string());
    }

    // (E) uniform models ---------------------------------------------------------------------
    for &p in &[1u32, 2, 3, 4, 7, 8] {
        out.push(format!("cat.unisweep 8 {:x} 0 104", p));
    }
    for &p in &[1u32, 2, 3, 4, 8, 12] {
        out.push(format!("cat.unisweep 10 {:x} 0 {:x}", p, (pow2(p) + 4).min(if thorough { 4100 } else { 300 })));
    }
    out.push(format!("cat.unisweep 10 c {:x} {:x}", pow2(12) - 3, pow2(12) + 3));
    out.push("cat.unisweep 10 10 0 40".to_string());
    out.push("cat.unisweep 10 f 0 40".to_string());
    out.push("cat.unisweep 20 c 0 40".to_string());
    out.push("cat.unisweep 40 40 0 40".to_string());
    out.push("cat.unisweep 40 3f 0 40".to_string());
    out.push("cat.unisweep 40 1 0 6".to_string());
    out.push(format!("cat.unisweep 20 c {:x} {:x}", pow2(12) - 3, pow2(12) + 3));
    let n_uni = if thorough { 150 } else { 12 };
    for &(b, ps) in BPS {
        for &p in ps {
            for i in 0..n_uni {
                let t = pow2(p);
                let range: u128 = match i % 12 {
                    0 => 2,
                    1 => 3,
                    2 => t,
                    3 => t - 1,
                    4 => t + 1,
                    5 => (t / 2).max(2),
                    6 => (t / 2 + 1).max(2),
                    7 => *rng.pick(&[0u128, 1, pow2(b), pow2(b) + 1, pow2(32) + 5, u64::MAX as u128, pow2(b) - 1]),
                    8 => (t / 3).max(2),
                    _ => 2 + rng.below(t.max(3) - 1),
                };
                let range = range & u64::MAX as u128; // a `usize`
                let mut line = format!("cat.uniform {:x} {:x} {:x}", b, p, range);
                let last = range.saturating_sub(1);
                let mut syms = vec![0, 1, last.saturating_sub(1), last, last + 1, last + 2];
                for base in [pow2(8), pow2(16), pow2(32)] {
                    syms.push(base + rng.below(range.max(1)));
                    syms.push(base + last);
                    syms.push(base);
                    syms.push(base - 1);
                }
                syms.push(u64::MAX as u128);
                let syms: Vec<u128> = syms.into_iter().map(|s| s & u64::MAX as u128).collect();
                line.push_str(&format!(" | encs {}", show_list(syms)));
                let ppb = if range >= 2 && range <= t { t / range } else { 1 };
                let mut qs = vec![0, t - 1, t / 2];
                for k in [1u128, 2, last.max(1) - 1 + 1, last.max(1)] {
                    let c = (k * ppb).min(t - 1);
                    qs.push(c);
                    qs.push(c.saturating_sub(1));
                    if c + 1 < t {
                        qs.push(c + 1);
                    }
                }
                for _ in 0..3 {
                    qs.push(rng.below(t));
                }
                line.push_str(&format!(" | decs {}", show_list(qs)));
                if range <= 600 {
                    line.push_str(" | table");
                    if p <= 10 {
                        line.push_str(&format!(" | decsweep 0 {:x}", t));
                    }
                    if range <= 300 && (b < 32) && p <= 12 {
                        line.push_str(" | togenlookup | table");
                        line.push_str(&format!(" | decs {}", show_list((0..4).map(|_| rng.below(t)))));
                    } else {
                        let op = *rng.pick(&["togenenc", "togendec"]);
                        line.push_str(&format!(" | {}", op));
                        if op == "togenenc" {
                            line.push_str(&format!(" | support | encs {}", show_list(vec![0, last, last + 1, pow2(32) + 1])));
                        } else {
                            line.push_str(&format!(" | table | decs {}", show_list((0..4).map(|_| rng.below(t)))));
                        }
                    }
                }
                if p < b && i % 5 == 0 {
                    line.push_str(&format!(" | dec {:x}", pow2(b) - 1 - rng.below(3)));
                }
                out.push(line);
            }
        }
    }

    // (F) D13 glue: symbol counts vs weight counts in the `…_fast` constructors ------------
    for kind in ["dec", "enc", "lookup"] {
        for &(b, p) in &[(8u32, 3u32), (8, 8), (16, 12), (16, 16), (32, 24), (32, 32)] {
            if kind == "lookup" && b >= 32 {
                continue;
            }
            for n in 0..=6usize {
                for ns in 0..=7usize {
                    if !thorough && (n + ns + p as usize) % 2 == 1 && n.abs_diff(ns) > 1 {
                        continue;
                    }
                    let mut labels = random_labels(rng, ns.max(1));
                    labels.truncate(ns);
                    if ns >= 2 && rng.chance(1, 6) {
                        labels[0] = labels[1];
                    }
                    let ops = if kind == "enc" {
                        format!("support | has {:x} | has {:x}", labels.first().copied().unwrap_or(0), labels.last().copied().unwrap_or(1).wrapping_add(1))
                    } else {
                        "syms".to_string()
                    };
                    out.push(format!("cat.fast {} {:x} {:x} {:x} {} | {}", kind, b, p, n, show_list(labels.iter().map(|&l| l as u128)), ops));
                }
            }
        }
    }

    // (H) conversion matrix: every (source representation) x (conversion) at every compiled
    //     (B, P) -- in particular P == B, where the last cdf entry is the wrapped total 0 --
    //     followed by the full query battery (all quantiles if P <= 12, both ends otherwise)
    let reps = if thorough { 6 } else { 2 };
    for &(b, ps) in BPS {
        for &p in ps {
            for kind in ["contig", "ncdec", "lookup", "nclookup"] {
                if b >= 32 && kind.contains("lookup") {
                    continue;
                }
                for op in conv_ops_for(kind, b) {
                    for r in 0..reps {
                        let maxn = pow2(p).min(if r == 0 { 5 } else { 40 });
                        let n = if maxn <= 2 { 2 } else { 2 + rng.below(maxn - 1) as usize };
                        let probs = random_table(rng, p, n);
                        out.push(valid_line_with(rng, kind, b, p, &probs, r % 2 == 1, p <= 12, 2, Some(op)));
                    }
                }
            }
            // uniform source
            for op in conv_ops_for("uniform", b) {
                for r in 0..reps {
                    let t = pow2(p);
                    let range = match r {
                        0 => 2,
                        1 => t.min(37),
                        _ => 2 + rng.below(t.min(300) - 1),
                    };
                    let mut line = format!("cat.uniform {:x} {:x} {:x} | table | {}", b, p, range, op);
                    if b >= 32 && op == "togenlookup" {
                        out.push(line);
                        continue;
                    }
                    let cur = kind_after("uniform", op);
                    let probs: Vec<u128> = (0..range).map(|i| if i + 1 == range { t - (range - 1) * (t / range) } else { t / range }).collect();
                    for q in query_ops(rng, cur, b, p, &probs, None, p <= 12) {
                        line.push_str(" | ");
                        line.push_str(&q);
                    }
                    out.push(line);
                }
            }
        }
    }

    // (I) `from_iterable_entropy_model` / `to_generic_*` of sources with an ARBITRARY symbol table
    //     (valid, shifted, gaps, overlaps, too little / too much mass, empty, repeated symbols,
    //     wraps at P == B): the validation added for D31 / D32 and what follows it
    for &(b, ps) in BPS {
        for &p in ps {
            for _ in 0..(if thorough { 4 } else { 1 }) {
                for (_class, tbl) in lying_tables(rng, b, p) {
                    for target in ["dec", "gdec", "lookup", "enc", "genc"] {
                        let mut line = format!("cat.fromtable {} {:x} {:x} {}", target, b, p, show_triples(&tbl));
                        let syms: Vec<u128> = tbl.iter().map(|e| e.0 as u128).chain([0u128, 1, 99, 1 << 32]).collect();
                        if target.ends_with("enc") {
                            line.push_str(&format!(" | support | encs {}", show_list(syms)));
                        } else {
                            line.push_str(" | table | support");
                            if p <= 12 {
                                line.push_str(&format!(" | decsweep 0 {:x}", pow2(p)));
                            } else {
                                line.push_str(&format!(" | decsweep 0 100 | decsweep {:x} {:x}", pow2(p) - 0x100, pow2(p)));
                            }
                            line.push_str(" | togenenc | support");
                        }
                        out.push(line);
                    }
                }
            }
        }
    }

    // (G) the transcription of `binary_search_by` --------------------------------------------
    let n_bs = if thorough { 6000 } else { 500 };
    for i in 0..n_bs {
        let n = if i < 60 { i / 3 } else { (rng.next() % 70) as usize };
        let sorted = rng.chance(2, 3);
        let mut a: Vec<u128> = (0..n).map(|_| rng.below(40)).collect();
        if sorted {
            a.sort();
        }
        let q = match rng.next() % 4 {
            0 => 0,
            1 => 40,
            _ => rng.below(41),
        };
        out.push(format!("cat.bsearch {} {:x}", show_list(a), q));
    }
}
