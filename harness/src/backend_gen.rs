// ---------------------------------------------------------------------------------------
// generation (included into backend.rs)

const WS: [u32; 4] = [8, 16, 32, 64];
const CUR_KINDS: [(&str, bool, bool); 8] = [
    // (kind, writable, reversed)
    ("backend.cursor-owned", true, false),
    ("backend.cursor-box", true, false),
    ("backend.cursor-mut", true, false),
    ("backend.cursor-slice", false, false),
    ("backend.rev-cursor", true, true),
    ("backend.rev-cursor-box", true, true),
    ("backend.rev-cursor-mut", true, true),
    ("backend.rev-cursor-slice", false, true),
];
const FAR: [u128; 3] = [0xffff_ffff_ffff_ffff, 0x8000_0000_0000_0000, 0x1_0000_0000];

/// `n` pairwise distinct words that use the whole width
fn distinct_words(w: u32, n: usize, salt: u128) -> Vec<u128> {
    let max = pow2(w) - 1;
    (0..n)
        .map(|i| {
            let i = i as u128;
            let v = if i % 2 == 0 { 0xa1 + i + salt } else { max - (i + salt) };
            v & max
        })
        .collect()
}

fn gen_word(rng: &mut Rng, w: u32) -> u128 {
    rng.bits_biased(w)
}

fn gen_ws(rng: &mut Rng, w: u32, n: usize) -> Vec<u128> {
    (0..n).map(|_| gen_word(rng, w)).collect()
}

/// every op the protocol knows, instantiated around a cursor state `(len, pos)`
fn all_ops_around(w: u32, len: usize, pos: usize) -> Vec<String> {
    let mut ops: Vec<String> = vec![
        "read_s".into(),
        "read_q".into(),
        format!("write {:x}", (pow2(w) - 1) & 0xc3c3_c3c3_c3c3_c3c3),
        "remaining_s".into(),
        "remaining_q".into(),
        "exhausted_s".into(),
        "exhausted_q".into(),
        "space_left".into(),
        "full".into(),
        "pos".into(),
        "into_reversed".into(),
        "roundtrip".into(),
    ];
    // seeks: 0, pos-1, pos, pos+1, len-1, len, len+1, far
    let mut seeks: Vec<u128> = vec![0, pos as u128, pos as u128 + 1, len as u128, len as u128 + 1];
    if pos > 0 {
        seeks.push(pos as u128 - 1);
    }
    if len > 0 {
        seeks.push(len as u128 - 1);
    }
    seeks.extend(FAR);
    seeks.sort();
    seeks.dedup();
    for s in seeks {
        ops.push(format!("seek {:x}", s));
    }
    // extend_from_iter around both notions of free space (len - pos forwards, pos backwards)
    let mut ns: Vec<usize> = vec![0, 1, len - pos, len - pos + 1, pos, pos + 1];
    if len - pos > 0 {
        ns.push(len - pos - 1);
    }
    if pos > 0 {
        ns.push(pos - 1);
    }
    ns.sort();
    ns.dedup();
    for n in ns {
        ops.push(format!("extend_from_iter {}", show_list(distinct_words(w, n, 0x30))));
    }
    // temporary views / copies (`as_view`, `as_mut_view`, `cloned`)
    let c3 = (pow2(w) - 1) & 0xc3c3_c3c3_c3c3_c3c3;
    for prog in [
        "-".to_string(),
        "read_s,read_q,remaining_s,remaining_q,exhausted_s,exhausted_q,pos,raw".to_string(),
        format!("seek:0,read_q,seek:{:x},read_s,seek:{:x},pos", len, len + 1),
        format!("write:{:x},space_left,full,into_reversed,extend_from_iter:1.2,raw", c3),
    ] {
        ops.push(format!("as_view {}", prog));
    }
    for kind in ["as_mut_view", "cloned"] {
        for prog in [
            "-".to_string(),
            format!("write:{:x},raw", c3),
            format!("write:1,write:2,read_s,space_left,full,raw"),
            format!("into_reversed,write:{:x},read_s,read_q,pos,raw", c3),
            format!("seek:0,extend_from_iter:5.6.7,raw,into_reversed,into_reversed,raw"),
            format!("read_s,read_q,write:{:x},remaining_s,remaining_q,seek:{:x},write:7", c3, len),
        ] {
            ops.push(format!("{} {}", kind, prog));
        }
    }
    ops
}

/// a random view program in sub-op syntax
fn random_prog(rng: &mut Rng, w: u32, lenhint: usize) -> String {
    let n = rng.next() % 7;
    if n == 0 {
        return "-".into();
    }
    (0..n)
        .map(|_| match rng.next() % 16 {
            0..=2 => "read_s".to_string(),
            3..=5 => "read_q".to_string(),
            6..=8 => format!("write:{:x}", gen_word(rng, w)),
            9 => {
                let k = (rng.next() % 4) as usize;
                if k == 0 {
                    "extend_from_iter:-".to_string()
                } else {
                    format!("extend_from_iter:{}", gen_ws(rng, w, k).iter().map(|x| format!("{:x}", x)).collect::<Vec<_>>().join("."))
                }
            }
            10 => (*rng.pick(&["remaining_s", "remaining_q", "exhausted_s", "exhausted_q", "space_left", "full", "pos"])).to_string(),
            11..=12 => format!("seek:{:x}", rng.below(lenhint as u128 + 2)),
            13 => "into_reversed".to_string(),
            _ => "raw".to_string(),
        })
        .collect::<Vec<_>>()
        .join(",")
}

fn gen_exhaustive_cursor(rng: &mut Rng, thorough: bool, out: &mut Vec<String>) {
    let mut rot = 0usize;
    for &(kind, _wr, _rev) in CUR_KINDS.iter() {
        for len in 0..=4usize {
            for pos in 0..=len {
                let widths: Vec<u32> = if thorough { WS.to_vec() } else { vec![WS[rot % 4], WS[(rot + 1) % 4]] };
                rot += 1;
                for w in widths {
                    let buf = distinct_words(w, len, 0);
                    let init = format!("{} {:x} | at {} {:x}", kind, w, show_list(buf.clone()), pos);
                    let ops = all_ops_around(w, len, pos);
                    for op in &ops {
                        // single step, then everything observable afterwards
                        out.push(format!(
                            "{} | {} | raw | pos | remaining_s | remaining_q | space_left | read_s | read_q | raw",
                            init, op
                        ));
                    }
                    if thorough {
                        for a in &ops {
                            for b in &ops {
                                out.push(format!("{} | {} | {} | raw", init, a, b));
                            }
                        }
                    } else {
                        // a random sample of the op pairs
                        for _ in 0..6 {
                            let a = rng.pick(&ops).clone();
                            let b = rng.pick(&ops).clone();
                            out.push(format!("{} | {} | {} | raw | read_s | read_q", init, a, b));
                        }
                    }
                    // the other constructors
                    out.push(format!("{} {:x} | begin {} | raw | read_q | read_s | space_left", kind, w, show_list(buf.clone())));
                    out.push(format!("{} {:x} | end {} | raw | read_s | read_q | space_left", kind, w, show_list(buf.clone())));
                    // `new_at_pos_mut`, `new_at_write_end_mut`, conversion traits (kinds for which the
                    // constructor does not exist answer `bad-op` on both sides)
                    out.push(format!("{} {:x} | at_mut {} {:x} | raw | read_s | read_q | write 5 | raw", kind, w, show_list(buf.clone()), pos));
                    if pos == 0 {
                        out.push(format!("{} {:x} | at_mut {} {:x} | raw", kind, w, show_list(buf.clone()), len + 1));
                        out.push(format!("{} {:x} | end_mut {} | raw | read_s | read_q | write 5 | space_left | raw", kind, w, show_list(buf.clone())));
                        for conv in ["into_read_s", "into_read_q", "into_seek_read_s", "into_seek_read_q",
                                     "as_read_s", "as_read_q", "as_seek_read_s", "as_seek_read_q"] {
                            out.push(format!(
                                "{} {:x} | {} {} | raw | pos | remaining_s | remaining_q | read_s | read_q | seek {:x} | read_s | seek 0 | read_q | raw",
                                kind, w, conv, show_list(buf.clone()), len
                            ));
                        }
                    }
                }
            }
            // refused constructor
            let w = WS[rot % 4];
            out.push(format!("{} {:x} | at {} {:x} | raw", kind, w, show_list(distinct_words(w, len, 0)), len + 1));
            out.push(format!("{} {:x} | at {} {:x} | raw", kind, w, show_list(distinct_words(w, len, 0)), FAR[rot % 3]));
        }
    }
}

/// buf_mut misuse (only meaningful after the D12 repair: every outcome is a value or a panic)
fn gen_buf_mut(rng: &mut Rng, thorough: bool, out: &mut Vec<String>) {
    let mut rot = 0usize;
    for &(kind, _wr, _rev) in CUR_KINDS.iter() {
        for len in 0..=4usize {
            for pos in 0..=len {
                for newlen in 0..=(len + 1) {
                    let widths: Vec<u32> = if thorough { WS.to_vec() } else { vec![WS[rot % 4]] };
                    rot += 1;
                    for w in widths {
                        let buf = distinct_words(w, len, 0);
                        let init = format!("{} {:x} | at {} {:x}", kind, w, show_list(buf.clone()), pos);
                        let shrink = if newlen <= len && rot % 2 == 0 {
                            format!("bm_truncate {:x}", newlen)
                        } else {
                            format!("bm_set {}", show_list(distinct_words(w, newlen, 0x50)))
                        };
                        for op in ["read_s", "read_q", "write 7", "extend_from_iter 1,2", "remaining_s", "remaining_q",
                                   "exhausted_s", "exhausted_q", "space_left", "full", "pos", "into_reversed", "roundtrip",
                                   "raw"] {
                            out.push(format!("{} | {} | {} | raw | read_q | read_s | raw", init, shrink, op));
                        }
                        // seeking to a valid position heals the cursor
                        out.push(format!(
                            "{} | {} | seek {:x} | seek {:x} | raw | read_s | read_q | space_left | into_reversed | raw",
                            init, shrink, pos, newlen
                        ));
                    }
                }
            }
        }
    }
}

fn random_op(rng: &mut Rng, w: u32, kind_class: u32, lenhint: usize) -> String {
    // kind_class: 0 = vec-like, 1 = cursor, 2 = iter, 3 = callback
    let r = rng.next() % 40;
    match kind_class {
        0 => match r {
            0..=11 => "read_s".into(),
            12..=21 => format!("write {:x}", gen_word(rng, w)),
            22..=24 => { let n = (rng.next() % 6) as usize; format!("extend_from_iter {}", show_list(gen_ws(rng, w, n))) }
            25..=26 => "remaining_s".into(),
            27 => "exhausted_s".into(),
            28 => "full".into(),
            29..=30 => "pos".into(),
            31..=34 => format!("seek {:x}", rng.below(lenhint as u128 + 3)),
            35 => format!("seek {:x}", rng.pick(&FAR)),
            36 => "read_q".into(),
            37 => "space_left".into(),
            _ => "raw".into(),
        },
        1 => match r {
            0..=6 => "read_s".into(),
            7..=13 => "read_q".into(),
            14..=20 => format!("write {:x}", gen_word(rng, w)),
            21..=22 => { let n = (rng.next() % 5) as usize; format!("extend_from_iter {}", show_list(gen_ws(rng, w, n))) }
            23 => "remaining_s".into(),
            24 => "remaining_q".into(),
            25 => "exhausted_s".into(),
            26 => "exhausted_q".into(),
            27..=28 => "space_left".into(),
            29 => "full".into(),
            30 => "pos".into(),
            31..=33 => format!("seek {:x}", rng.below(lenhint as u128 + 2)),
            34 => format!("seek {:x}", rng.pick(&FAR)),
            35 => "into_reversed".into(),
            36 => format!("{} {}", rng.pick(&["as_view", "as_mut_view", "cloned"]), random_prog(rng, w, lenhint)),
            37 => "roundtrip".into(),
            _ => "raw".into(),
        },
        2 => match r {
            0..=14 => "read_s".into(),
            15..=29 => "read_q".into(),
            30..=32 => "remaining_s".into(),
            33 => "remaining_q".into(),
            34 => "exhausted_s".into(),
            35 => "exhausted_q".into(),
            36 => "write 1".into(),
            37 => "pos".into(),
            _ => "raw".into(),
        },
        _ => match r {
            0..=19 => format!("write {:x}", gen_word(rng, w)),
            20..=29 => { let n = (rng.next() % 5) as usize; format!("extend_from_iter {}", show_list(gen_ws(rng, w, n))) }
            30..=31 => "full".into(),
            32 => "read_s".into(),
            33 => "space_left".into(),
            34 => "seek 0".into(),
            35..=37 => format!("into_inner {:x}", gen_word(rng, w)),
            _ => "raw".into(),
        },
    }
}

fn gen_script(rng: &mut Rng, w: u32, n: usize) -> String {
    if n == 0 {
        return "-".into();
    }
    (0..n)
        .map(|_| match rng.next() % 10 {
            0 => "x".to_string(),
            1 => "_".to_string(),
            _ => format!("{:x}", gen_word(rng, w)),
        })
        .collect::<Vec<_>>()
        .join(",")
}

fn gen_random(rng: &mut Rng, n_per: usize, out: &mut Vec<String>) {
    for &w in WS.iter() {
        for _ in 0..n_per {
            // vec / smallvec (lengths around the inline capacity 4)
            for kind in ["backend.vec", "backend.smallvec"] {
                let len = (rng.next() % 7) as usize;
                let mut line = format!("{} {:x} | data {}", kind, w, show_list(gen_ws(rng, w, len)));
                let k = rng.next() % 25;
                for _ in 0..k {
                    line.push_str(" | ");
                    line.push_str(&random_op(rng, w, 0, len + 2));
                }
                line.push_str(" | raw");
                out.push(line);
            }
            // cursors
            for &(kind, _, _) in CUR_KINDS.iter() {
                let len = (rng.next() % 8) as usize;
                let pos = rng.below(len as u128 + 1);
                let init = match rng.next() % 6 {
                    0 => format!("begin {}", show_list(gen_ws(rng, w, len))),
                    1 => format!("end {}", show_list(gen_ws(rng, w, len))),
                    _ => format!("at {} {:x}", show_list(gen_ws(rng, w, len)), pos),
                };
                let mut line = format!("{} {:x} | {}", kind, w, init);
                let k = rng.next() % 31;
                for _ in 0..k {
                    line.push_str(" | ");
                    line.push_str(&random_op(rng, w, 1, len));
                }
                line.push_str(" | raw");
                out.push(line);
            }
            // iterators
            for flavour in ["fallible", "infallible", "fallible-loose", "infallible-loose"] {
                let n = (rng.next() % 8) as usize;
                let mut line = format!("backend.iter {:x} | {} {}", w, flavour, gen_script(rng, w, n));
                if flavour.ends_with("loose") {
                    let hi = if rng.chance(1, 4) { "inf".to_string() } else { format!("{:x}", rng.below(4)) };
                    line.push_str(&format!(" {:x} {}", rng.below(3), hi));
                }
                let k = rng.next() % 14;
                for _ in 0..k {
                    line.push_str(" | ");
                    line.push_str(&random_op(rng, w, 2, 0));
                }
                line.push_str(" | raw | read_s | read_q");
                out.push(line);
            }
            // callbacks
            {
                let nf = rng.next() % 3;
                let mut fa: Vec<u128> = (0..nf).map(|_| rng.below(8)).collect();
                fa.sort();
                fa.dedup();
                let init = if rng.chance(1, 3) { "infallible".to_string() } else { format!("fallible {}", show_list(fa)) };
                let mut line = format!("backend.callback {:x} | {}", w, init);
                let k = rng.next() % 10;
                for _ in 0..k {
                    line.push_str(" | ");
                    line.push_str(&random_op(rng, w, 3, 0));
                }
                line.push_str(" | raw");
                out.push(line);
            }
        }
    }
}

/// Vec / SmallVec: every length 0..=6 (inline capacity 4) × every op, seeks to 0/len/len+1/far
fn gen_exhaustive_stack(out: &mut Vec<String>) {
    let mut rot = 0;
    for kind in ["backend.vec", "backend.smallvec"] {
        for len in 0..=6usize {
            let w = WS[rot % 4];
            rot += 1;
            let data = show_list(distinct_words(w, len, 0));
            let mut ops: Vec<String> = vec![
                "read_s".into(), "read_q".into(), "write 5a".into(), "remaining_s".into(), "remaining_q".into(),
                "exhausted_s".into(), "exhausted_q".into(), "space_left".into(), "full".into(), "pos".into(),
                "into_reversed".into(), "roundtrip".into(), "bm_set 1".into(), "bm_truncate 0".into(),
            ];
            for n in 0..=5usize {
                ops.push(format!("extend_from_iter {}", show_list(distinct_words(w, n, 0x30))));
            }
            let mut seeks: Vec<u128> = vec![0, len as u128, len as u128 + 1];
            if len > 0 { seeks.push(len as u128 - 1); }
            seeks.extend(FAR);
            seeks.sort();
            seeks.dedup();
            for s in seeks {
                ops.push(format!("seek {:x}", s));
            }
            for op in &ops {
                out.push(format!("{} {:x} | data {} | {} | raw | pos | read_s | raw", kind, w, data, op));
            }
            // write up to and across the inline capacity, then unwind
            out.push(format!(
                "{} {:x} | data {} | write 1 | raw | write 2 | raw | write 3 | raw | read_s | read_s | read_s | read_s | raw | seek 0 | raw | read_s",
                kind, w, data
            ));
        }
    }
}

/// all scripts of length ≤ 3 over {word, Err, hole}, read past the end
fn gen_exhaustive_iter(out: &mut Vec<String>) {
    let alphabet = ["11", "x", "_"];
    let mut scripts: Vec<Vec<&str>> = vec![vec![]];
    let mut frontier: Vec<Vec<&str>> = vec![vec![]];
    for _ in 0..3 {
        let mut next = Vec::new();
        for s in &frontier {
            for a in alphabet {
                let mut t = s.clone();
                t.push(a);
                next.push(t);
            }
        }
        scripts.extend(next.clone());
        frontier = next;
    }
    let mut rot = 0;
    for sc in scripts {
        let w = WS[rot % 4];
        rot += 1;
        // make the words of a script distinct
        let toks: Vec<String> = sc.iter().enumerate().map(|(i, t)| if *t == "11" { format!("{:x}", 0x11 + i) } else { t.to_string() }).collect();
        let s = if toks.is_empty() { "-".to_string() } else { toks.join(",") };
        for flavour in ["fallible", "infallible"] {
            out.push(format!(
                "backend.iter {:x} | {} {} | raw | remaining_s | exhausted_s | read_s | remaining_q | read_q | exhausted_q | read_s | remaining_s | read_q | read_s | raw",
                w, flavour, s
            ));
            out.push(format!(
                "backend.iter {:x} | {} {} | read_q | read_q | read_q | read_q | read_q | remaining_q | write 1 | seek 0 | pos | space_left | full | into_reversed",
                w, flavour, s
            ));
            // the same script behind a legal but inexact size_hint (lower slack, upper slack / no upper bound)
            for (lo, hi) in [("0", "1"), ("1", "0"), ("2", "3"), ("0", "inf"), ("1", "inf"), ("0", "ffffffffffffffff")] {
                out.push(format!(
                    "backend.iter {:x} | {}-loose {} {} {} | exhausted_s | read_s | exhausted_q | read_q | exhausted_s | read_s | exhausted_q | read_q | exhausted_s | read_s | raw | remaining_s | write 1",
                    w, flavour, s, lo, hi
                ));
            }
        }
    }
}

fn gen_exhaustive_callback(out: &mut Vec<String>) {
    let mut rot = 0;
    for mask in 0..16u32 {
        let fa: Vec<u128> = (0..4).filter(|i| mask >> i & 1 == 1).map(|i| i as u128).collect();
        let w = WS[rot % 4];
        rot += 1;
        out.push(format!(
            "backend.callback {:x} | fallible {} | write a | raw | write b | write c | raw | write d | write e | raw | full",
            w, show_list(fa.clone())
        ));
        out.push(format!(
            "backend.callback {:x} | fallible {} | into_inner a | raw | write b | into_inner c | raw | into_inner d | extend_from_iter e,f | raw",
            w, show_list(fa.clone())
        ));
        for n in 0..=5usize {
            out.push(format!(
                "backend.callback {:x} | fallible {} | extend_from_iter {} | raw | extend_from_iter {} | raw",
                w, show_list(fa.clone()), show_list(distinct_words(w, n, 0)), show_list(distinct_words(w, 2, 0x70))
            ));
        }
    }
    for &w in WS.iter() {
        out.push(format!("backend.callback {:x} | infallible | write 1 | extend_from_iter 2,3,4 | extend_from_iter - | raw | full | read_s | read_q | remaining_s | pos | seek 0 | space_left", w));
        out.push(format!("backend.callback {:x} | infallible | into_inner 1 | write 2 | into_inner 3 | extend_from_iter 4,5 | into_inner 6 | raw | as_view - | cloned -", w));
    }
}

fn gen_malformed(out: &mut Vec<String>) {
    for l in [
        "backend.vec 8 | data 1,2 | frobnicate | raw",
        "backend.vec 8 | data 1,zz | raw",
        "backend.vec 8 | nodata | raw",
        "backend.vec 7 | data 1 | raw",
        "backend.vec 80 | data 1 | raw",
        "backend.vec | data 1",
        "backend.vec 8",
        "backend.nosuch 8 | data 1 | raw",
        "backend.cursor-owned 8 | at 1,2 | raw",
        "backend.cursor-owned 8 | at 1,2 10000000000000000 | raw",
        "backend.cursor-owned 8 | at 1,2 1 | seek 10000000000000000 | raw",
        "backend.cursor-owned 8 | at 1,2 1 | seek | raw",
        "backend.cursor-owned 8 | at 1ff,2aa 1 | write 1234 | raw",
        "backend.cursor-owned 10 | at 1ffff,2aaaa 1 | write 12345 | raw",
        "backend.cursor-owned 20 | at 1ffffffff,2 1 | write 123456789 | raw",
        "backend.cursor-owned 40 | at 1ffffffffffffffff,2 1 | write 12345678901234567 | raw",
        "backend.cursor-slice 8 | at 1,2 1 | write 3 | extend_from_iter 1 | space_left | full | into_reversed | raw",
        "backend.rev-cursor-slice 8 | at 1,2 1 | write 3 | extend_from_iter 1 | space_left | full | into_reversed | raw",
        "backend.iter 8 | fallible 1,q | read_s",
        "backend.iter 8 | sometimes 1 | read_s",
        "backend.callback 8 | fallible | write 1",
        "backend.callback 8 | infallible 1 | write 1",
        "backend.callback 8 | fallible zz | write 1",
        "backend.iter 8 | fallible 1ff,x,_ | read_s | read_s | read_s | read_s",
        "backend.iter 8 | fallible-loose 1,2 0 | read_s",
        "backend.iter 8 | fallible-loose 1,2 zz 1 | read_s",
        "backend.iter 8 | fallible-loose 1,2 0 10000000000000000 | read_s",
        "backend.iter 8 | infallible-loose 1,q 0 inf | read_s",
        // views: unknown / nested / malformed sub-ops, views on backends that have none
        "backend.cursor-owned 8 | at 1,2 1 | as_view roundtrip | raw",
        "backend.cursor-owned 8 | at 1,2 1 | as_view bm_set:1 | raw",
        "backend.cursor-owned 8 | at 1,2 1 | as_mut_view as_view | raw",
        "backend.cursor-owned 8 | at 1,2 1 | as_view | raw",
        "backend.cursor-owned 8 | at 1,2 1 | as_view write: | raw",
        "backend.cursor-owned 8 | at 1,2 1 | as_view write:1:2 | raw",
        "backend.cursor-owned 8 | at 1,2 1 | cloned extend_from_iter: | raw",
        "backend.cursor-owned 8 | at 1,2 1 | cloned extend_from_iter:1..2 | raw",
        "backend.cursor-owned 8 | at 1,2 1 | cloned seek:10000000000000000 | raw",
        "backend.cursor-owned 8 | at 1,2 1 | as_view read_s, | raw",
        "backend.cursor-owned 8 | at 1ff,2 1 | as_mut_view write:1ff,raw | raw",
        "backend.vec 8 | data 1 | as_view read_s | as_mut_view - | cloned - | into_inner 1 | raw",
        "backend.iter 8 | fallible 1 | as_view read_s | into_inner 1 | read_s",
        "backend.cursor-owned 8 | at 1,2 1 | into_inner 1 | raw",
        "backend.callback 8 | infallible | into_inner | raw",
        "backend.callback 8 | infallible | into_inner zz | raw",
        "backend.cursor-owned 8 | as_read_s 1,2 | raw",
        "backend.cursor-slice 8 | at_mut 1,2 1 | raw",
        "backend.cursor-slice 8 | end_mut 1,2 | raw",
        "backend.cursor-owned 8 | at_mut 1,2 | raw",
        "backend.cursor-owned 8 | into_read_s | raw",
        // buf_mut misuse seen through a view
        "backend.cursor-owned 8 | at 1,2,3,4 4 | bm_truncate 1 | as_view read_q,raw | as_view read_s | raw",
        "backend.cursor-owned 8 | at 1,2,3,4 4 | bm_truncate 1 | as_mut_view write:5,space_left | raw",
        "backend.cursor-owned 8 | at 1,2,3,4 4 | bm_truncate 1 | cloned into_reversed | raw",
        // numbers of 2^128 and above, and signs, are unparseable on both sides
        "backend.callback 8 | fallible 100000000000000000000000000000000 | write 1",
        "backend.callback 8 | fallible ffffffffffffffffffffffffffffffff | write 1 | raw",
        "backend.vec 8 | data 1 | write 100000000000000000000000000000000 | raw",
        "backend.vec 8 | data 100000000000000000000000000000001 | raw",
        "backend.vec 8 | data 1 | extend_from_iter 2,100000000000000000000000000000000 | raw",
        "backend.vec 8 | data 1 | write ffffffffffffffffffffffffffffffff | raw",
        "backend.vec 8 | data 1 | write +5 | raw",
        "backend.vec +8 | data 1 | raw",
        "backend.vec 100000000000000000000000000000008 | data 1 | raw",
        "backend.iter 8 | fallible 1,100000000000000000000000000000000 | read_s",
        "backend.cursor-owned 8 | at 1,2 +1 | raw",
        "backend.vec 8 | data 1 | seek +0 | raw",
        "backend.vec 8 | data 0000000000000000000000000000000000000001 | write 0000000000000000000000000000000000000002 | raw",
    ] {
        out.push(l.to_string());
    }
}

pub fn gen(rng: &mut Rng, tier: &str, out: &mut Vec<String>) {
    let thorough = tier == "thorough";
    gen_malformed(out);
    gen_exhaustive_stack(out);
    gen_exhaustive_iter(out);
    gen_exhaustive_callback(out);
    gen_exhaustive_cursor(rng, thorough, out);
    gen_buf_mut(rng, thorough, out);
    gen_random(rng, if thorough { 1500 } else { 60 }, out);
}
