//! Shared helpers of the compile-fail probes (see README.md, tools/guard_probes.py).
//!
//! Every binary under `src/bin/` instantiates one guarded entry point of `constriction` with a
//! type combination that violates exactly one `generic_static_asserts!` label (`*__bad.rs`, must
//! NOT compile) or with boundary-valid combinations (`*__control__ok.rs`, must compile).  Nothing
//! here is ever meant to *run* except the witness functions (feature `witness`, used only when a
//! bad probe unexpectedly compiles).
#![allow(clippy::all)]

use core::borrow::Borrow;
use core::fmt;
use core::marker::PhantomData;
use core::ops::{Add, BitAnd, BitOr, BitXor, Div, Mul, Not, Rem, Shl, Shr, Sub};

use constriction::stream::model::{DecoderModel, EncoderModel, EntropyModel, IterableEntropyModel};
use constriction::{BitArray, NonZeroBitArray};
use num_traits::{
    AsPrimitive, Bounded, CheckedAdd, CheckedDiv, CheckedMul, CheckedSub, Num, NumCast, One,
    PrimInt, Saturating, ToPrimitive, Unsigned, WrappingAdd, WrappingMul, WrappingSub, Zero,
};

// ---------------------------------------------------------------------------------------------
// opaque control flow

/// Opaque diverging constructor: type checks as a `T`, so that the code behind it is not
/// statically unreachable and is still monomorphised (which is where the guards fire).
#[inline(never)]
pub fn make<T>() -> T {
    panic!("guardprobes::make is never meant to run")
}

/// Runtime-opaque `false`.
#[inline(never)]
pub fn never() -> bool {
    std::env::var_os("GUARD_PROBE_ENTER_UNREACHABLE").is_some()
}

/// `GUARD_WITNESS=1` asks a probe that unexpectedly compiled to demonstrate misbehaviour.
#[inline(never)]
pub fn witness_requested() -> bool {
    std::env::var_os("GUARD_WITNESS").map_or(false, |v| v == "1")
}

/// Runs a witness function, turning panics into `Err`; exits 1 with a message on failure.
pub fn run_witness(what: &str, f: impl FnOnce() -> Result<(), String> + std::panic::UnwindSafe) {
    let r = match std::panic::catch_unwind(f) {
        Ok(r) => r,
        Err(p) => Err(format!(
            "panicked: {}",
            p.downcast_ref::<String>()
                .cloned()
                .or_else(|| p.downcast_ref::<&str>().map(|s| s.to_string()))
                .unwrap_or_else(|| "?".into())
        )),
    };
    let _ = what;
    match r {
        Ok(()) => {
            println!("round trip succeeded (no misbehaviour exhibited)");
            std::process::exit(0)
        }
        Err(e) => {
            println!("{}", e.split_whitespace().collect::<Vec<_>>().join(" "));
            std::process::exit(1)
        }
    }
}

// ---------------------------------------------------------------------------------------------
// a functional two-symbol model with freely chosen `Probability` and `PRECISION`

/// Symbols `0` (probability `1 / 2^PRECISION`) and `1` (the rest, in wrapping arithmetic).  Unlike
/// the crate's own models it has no static guards, so `PRECISION = 0` or
/// `PRECISION > Probability::BITS` can be instantiated.
#[derive(Debug, Clone, Copy, Default)]
pub struct Dm<P, const PRECISION: usize>(pub PhantomData<P>);

pub fn wpow2<T: BitArray>(e: usize) -> T {
    if e >= T::BITS {
        T::zero()
    } else {
        T::one() << e
    }
}

impl<P: BitArray, const PRECISION: usize> Dm<P, PRECISION> {
    pub fn new() -> Self {
        Dm(PhantomData)
    }
    fn rest() -> P::NonZero {
        wpow2::<P>(PRECISION)
            .wrapping_sub(&P::one())
            .into_nonzero()
            .expect("Dm: second symbol would have zero probability")
    }
}

impl<P: BitArray, const PRECISION: usize> EntropyModel<PRECISION> for Dm<P, PRECISION> {
    type Symbol = usize;
    type Probability = P;
}

impl<P: BitArray, const PRECISION: usize> EncoderModel<PRECISION> for Dm<P, PRECISION> {
    fn left_cumulative_and_probability(
        &self,
        symbol: impl Borrow<usize>,
    ) -> Option<(P, P::NonZero)> {
        match *symbol.borrow() {
            0 => Some((P::zero(), P::one().into_nonzero().unwrap())),
            1 => Some((P::one(), Self::rest())),
            _ => None,
        }
    }
}

impl<P: BitArray, const PRECISION: usize> DecoderModel<PRECISION> for Dm<P, PRECISION> {
    fn quantile_function(&self, quantile: P) -> (usize, P, P::NonZero) {
        if quantile == P::zero() {
            (0, P::zero(), P::one().into_nonzero().unwrap())
        } else {
            (1, P::one(), Self::rest())
        }
    }
}

impl<'m, P: BitArray, const PRECISION: usize> IterableEntropyModel<'m, PRECISION>
    for Dm<P, PRECISION>
{
    fn symbol_table(&'m self) -> impl Iterator<Item = (usize, P, P::NonZero)> {
        [
            (0usize, P::zero(), P::one().into_nonzero().unwrap()),
            (1usize, P::one(), Self::rest()),
        ]
        .into_iter()
    }
}

// ---------------------------------------------------------------------------------------------
// a `BitArray` whose width is not a power of two

/// An `N`-bit unsigned integer (`1 <= N <= 64`) behaving like the builtin ones (overflow panics,
/// `wrapping_*` wrap at `2^N`).  The builtin integers all have power-of-two widths and
/// `Word: Into<State>` then forces `State == Word` or `State::BITS >= 2 * Word::BITS` and
/// `State::BITS % Word::BITS == 0`; `Bx<40>`, `Bx<48>` make it possible to violate
/// `STATE_SUPPORTS_AT_LEAST_TWO_WORDS` / `STATE_SIZE_IS_MULTIPLE_OF_WORD_SIZE` *alone*.
#[derive(Clone, Copy, PartialEq, Eq, PartialOrd, Ord, Hash, Default)]
pub struct Bx<const N: usize>(u64);

#[derive(Clone, Copy, PartialEq, Eq, Hash, Debug)]
pub struct NzBx<const N: usize>(Bx<N>);

impl<const N: usize> Bx<N> {
    pub const MASK: u64 = if N >= 64 { !0 } else { (1u64 << N) - 1 };
    pub fn new(v: u64) -> Self {
        Bx(v & Self::MASK)
    }
    pub fn get(self) -> u64 {
        self.0
    }
    fn chk(v: u128, what: &str) -> Self {
        assert!(v <= Self::MASK as u128, "attempt to {what} with overflow");
        Bx(v as u64)
    }
}

unsafe impl<const N: usize> BitArray for Bx<N> {
    const BITS: usize = N;
    type NonZero = NzBx<N>;
}

unsafe impl<const N: usize> NonZeroBitArray for NzBx<N> {
    type Base = Bx<N>;
    fn new(n: Bx<N>) -> Option<Self> {
        if n.0 == 0 {
            None
        } else {
            Some(NzBx(n))
        }
    }
    unsafe fn new_unchecked(n: Bx<N>) -> Self {
        NzBx(n)
    }
    fn get(self) -> Bx<N> {
        self.0
    }
}

impl<const N: usize> fmt::Display for NzBx<N> {
    fn fmt(&self, f: &mut fmt::Formatter<'_>) -> fmt::Result {
        fmt::Display::fmt(&self.0 .0, f)
    }
}

macro_rules! fmt_via_u64 {
    ($($tr:ident),*) => {$(
        impl<const N: usize> fmt::$tr for Bx<N> {
            fn fmt(&self, f: &mut fmt::Formatter<'_>) -> fmt::Result { fmt::$tr::fmt(&self.0, f) }
        }
    )*};
}
fmt_via_u64!(Display, Debug, LowerHex, UpperHex, Binary);

impl<const N: usize> Add for Bx<N> {
    type Output = Self;
    fn add(self, r: Self) -> Self {
        Self::chk(self.0 as u128 + r.0 as u128, "add")
    }
}
impl<const N: usize> Sub for Bx<N> {
    type Output = Self;
    fn sub(self, r: Self) -> Self {
        Bx(self.0.checked_sub(r.0).expect("attempt to subtract with overflow"))
    }
}
impl<const N: usize> Mul for Bx<N> {
    type Output = Self;
    fn mul(self, r: Self) -> Self {
        Self::chk(self.0 as u128 * r.0 as u128, "multiply")
    }
}
impl<const N: usize> Div for Bx<N> {
    type Output = Self;
    fn div(self, r: Self) -> Self {
        Bx(self.0 / r.0)
    }
}
impl<const N: usize> Rem for Bx<N> {
    type Output = Self;
    fn rem(self, r: Self) -> Self {
        Bx(self.0 % r.0)
    }
}
impl<const N: usize> Not for Bx<N> {
    type Output = Self;
    fn not(self) -> Self {
        Bx(!self.0 & Self::MASK)
    }
}
impl<const N: usize> BitAnd for Bx<N> {
    type Output = Self;
    fn bitand(self, r: Self) -> Self {
        Bx(self.0 & r.0)
    }
}
impl<const N: usize> BitOr for Bx<N> {
    type Output = Self;
    fn bitor(self, r: Self) -> Self {
        Bx(self.0 | r.0)
    }
}
impl<const N: usize> BitXor for Bx<N> {
    type Output = Self;
    fn bitxor(self, r: Self) -> Self {
        Bx(self.0 ^ r.0)
    }
}
impl<const N: usize> Shl<usize> for Bx<N> {
    type Output = Self;
    fn shl(self, r: usize) -> Self {
        assert!(r < N, "attempt to shift left with overflow");
        Bx((self.0 << r) & Self::MASK)
    }
}
impl<const N: usize> Shr<usize> for Bx<N> {
    type Output = Self;
    fn shr(self, r: usize) -> Self {
        assert!(r < N, "attempt to shift right with overflow");
        Bx(self.0 >> r)
    }
}
impl<const N: usize> Zero for Bx<N> {
    fn zero() -> Self {
        Bx(0)
    }
    fn is_zero(&self) -> bool {
        self.0 == 0
    }
}
impl<const N: usize> One for Bx<N> {
    fn one() -> Self {
        Bx(1)
    }
}
impl<const N: usize> Num for Bx<N> {
    type FromStrRadixErr = core::num::ParseIntError;
    fn from_str_radix(s: &str, radix: u32) -> Result<Self, Self::FromStrRadixErr> {
        u64::from_str_radix(s, radix).map(Self::new)
    }
}
impl<const N: usize> Unsigned for Bx<N> {}
impl<const N: usize> Bounded for Bx<N> {
    fn min_value() -> Self {
        Bx(0)
    }
    fn max_value() -> Self {
        Bx(Self::MASK)
    }
}
impl<const N: usize> ToPrimitive for Bx<N> {
    fn to_i64(&self) -> Option<i64> {
        self.0.to_i64()
    }
    fn to_u64(&self) -> Option<u64> {
        Some(self.0)
    }
}
impl<const N: usize> NumCast for Bx<N> {
    fn from<T: ToPrimitive>(n: T) -> Option<Self> {
        n.to_u64().filter(|v| *v <= Self::MASK).map(Bx)
    }
}
impl<const N: usize> CheckedAdd for Bx<N> {
    fn checked_add(&self, v: &Self) -> Option<Self> {
        self.0.checked_add(v.0).filter(|v| *v <= Self::MASK).map(Bx)
    }
}
impl<const N: usize> CheckedSub for Bx<N> {
    fn checked_sub(&self, v: &Self) -> Option<Self> {
        self.0.checked_sub(v.0).map(Bx)
    }
}
impl<const N: usize> CheckedMul for Bx<N> {
    fn checked_mul(&self, v: &Self) -> Option<Self> {
        self.0.checked_mul(v.0).filter(|v| *v <= Self::MASK).map(Bx)
    }
}
impl<const N: usize> CheckedDiv for Bx<N> {
    fn checked_div(&self, v: &Self) -> Option<Self> {
        self.0.checked_div(v.0).map(Bx)
    }
}
impl<const N: usize> Saturating for Bx<N> {
    fn saturating_add(self, v: Self) -> Self {
        Bx(self.0.saturating_add(v.0).min(Self::MASK))
    }
    fn saturating_sub(self, v: Self) -> Self {
        Bx(self.0.saturating_sub(v.0))
    }
}
impl<const N: usize> WrappingAdd for Bx<N> {
    fn wrapping_add(&self, v: &Self) -> Self {
        Bx(self.0.wrapping_add(v.0) & Self::MASK)
    }
}
impl<const N: usize> WrappingSub for Bx<N> {
    fn wrapping_sub(&self, v: &Self) -> Self {
        Bx(self.0.wrapping_sub(v.0) & Self::MASK)
    }
}
impl<const N: usize> WrappingMul for Bx<N> {
    fn wrapping_mul(&self, v: &Self) -> Self {
        Bx(self.0.wrapping_mul(v.0) & Self::MASK)
    }
}
impl<const N: usize> PrimInt for Bx<N> {
    fn count_ones(self) -> u32 {
        self.0.count_ones()
    }
    fn count_zeros(self) -> u32 {
        N as u32 - self.0.count_ones()
    }
    fn leading_zeros(self) -> u32 {
        self.0.leading_zeros() - (64 - N as u32)
    }
    fn trailing_zeros(self) -> u32 {
        if self.0 == 0 {
            N as u32
        } else {
            self.0.trailing_zeros()
        }
    }
    fn rotate_left(self, n: u32) -> Self {
        let n = n as usize % N;
        if n == 0 {
            self
        } else {
            Bx(((self.0 << n) | (self.0 >> (N - n))) & Self::MASK)
        }
    }
    fn rotate_right(self, n: u32) -> Self {
        let n = n as usize % N;
        self.rotate_left((N - n) as u32)
    }
    fn signed_shl(self, n: u32) -> Self {
        self << n as usize
    }
    fn signed_shr(self, n: u32) -> Self {
        self >> n as usize
    }
    fn unsigned_shl(self, n: u32) -> Self {
        self << n as usize
    }
    fn unsigned_shr(self, n: u32) -> Self {
        self >> n as usize
    }
    fn swap_bytes(self) -> Self {
        unimplemented!("Bx has no byte representation")
    }
    fn from_be(_: Self) -> Self {
        unimplemented!("Bx has no byte representation")
    }
    fn from_le(x: Self) -> Self {
        x
    }
    fn to_be(self) -> Self {
        unimplemented!("Bx has no byte representation")
    }
    fn to_le(self) -> Self {
        self
    }
    fn pow(self, mut exp: u32) -> Self {
        let (mut base, mut acc) = (self, Bx::<N>(1));
        while exp > 0 {
            if exp & 1 == 1 {
                acc = acc * base;
            }
            exp >>= 1;
            if exp > 0 {
                base = base * base;
            }
        }
        acc
    }
}

macro_rules! bx_conv {
    ($($t:ty),*) => {$(
        // `Word: Into<State>` for a builtin `Word` and `State = Bx<N>` (the probes only use this
        // with `N >= <$t>::BITS`)
        impl<const N: usize> From<$t> for Bx<N> {
            fn from(v: $t) -> Self { Bx::new(v as u64) }
        }
        // `State: AsPrimitive<Word>` (truncating, like `as`)
        impl<const N: usize> AsPrimitive<$t> for Bx<N> {
            fn as_(self) -> $t { self.0 as $t }
        }
    )*};
}
bx_conv!(u8, u16, u32);
impl<const N: usize> AsPrimitive<u64> for Bx<N> {
    fn as_(self) -> u64 {
        self.0
    }
}
impl<const N: usize> AsPrimitive<usize> for Bx<N> {
    fn as_(self) -> usize {
        self.0 as usize
    }
}

// ---------------------------------------------------------------------------------------------
// witnesses (only compiled into the probes with `--features witness`)

pub mod witness {
    use super::*;
    use constriction::backends::Cursor;
    use constriction::stream::{
        chain::ChainCoder,
        queue::{RangeDecoder, RangeEncoder},
        stack::AnsCoder,
        Decode, Encode,
    };
    use constriction::UnwrapInfallible;

    const SYMBOLS: [usize; 24] = [
        1, 1, 0, 1, 1, 1, 0, 0, 1, 1, 1, 1, 0, 1, 1, 0, 1, 1, 1, 0, 1, 1, 1, 1,
    ];

    fn dbg<T: fmt::Debug>(e: T) -> String {
        format!("{e:?}")
    }

    /// Encodes `SYMBOLS` on an ANS coder with the two-symbol model and decodes them again.
    pub fn ans<Word, State, P, const PRECISION: usize>() -> Result<(), String>
    where
        Word: BitArray + Into<State> + AsPrimitive<P>,
        State: BitArray + AsPrimitive<Word>,
        P: BitArray + Into<Word>,
    {
        let model = Dm::<P, PRECISION>::new();
        let mut coder = AnsCoder::<Word, State, Vec<Word>>::default();
        for &s in SYMBOLS.iter().rev() {
            Encode::<PRECISION>::encode_symbol(&mut coder, s, model).map_err(dbg)?;
        }
        let compressed = coder.into_compressed().unwrap_infallible();
        let mut coder = AnsCoder::<Word, State, Vec<Word>>::from_compressed(compressed)
            .map_err(|_| "from_compressed rejected the encoder's own output".to_string())?;
        for (i, &s) in SYMBOLS.iter().enumerate() {
            let d = Decode::<PRECISION>::decode_symbol(&mut coder, model).map_err(dbg)?;
            if d != s {
                return Err(format!(
                    "ANS round trip (Word={} bits, State={} bits, PRECISION={}): symbol #{i} encoded as {s}, decoded as {d}",
                    Word::BITS, State::BITS, PRECISION
                ));
            }
        }
        Ok(())
    }

    /// Encodes `SYMBOLS` with a range encoder and decodes them again.
    pub fn range<Word, State, P, const PRECISION: usize>() -> Result<(), String>
    where
        Word: BitArray + Into<State> + AsPrimitive<P>,
        State: BitArray + AsPrimitive<Word>,
        P: BitArray + Into<Word>,
    {
        let model = Dm::<P, PRECISION>::new();
        let mut enc = RangeEncoder::<Word, State, Vec<Word>>::with_backend(Vec::new());
        for &s in SYMBOLS.iter() {
            Encode::<PRECISION>::encode_symbol(&mut enc, s, model).map_err(dbg)?;
        }
        let compressed = enc.into_compressed().unwrap_infallible();
        let mut dec =
            RangeDecoder::<Word, State, Cursor<Word, Vec<Word>>>::from_compressed(compressed)
                .map_err(dbg)?;
        for (i, &s) in SYMBOLS.iter().enumerate() {
            let d = Decode::<PRECISION>::decode_symbol(&mut dec, model).map_err(dbg)?;
            if d != s {
                return Err(format!(
                    "range coder round trip (Word={} bits, State={} bits, PRECISION={}): symbol #{i} encoded as {s}, decoded as {d}",
                    Word::BITS, State::BITS, PRECISION
                ));
            }
        }
        Ok(())
    }

    /// Decodes symbols from fixed binary data with a chain coder, re-encodes them and compares.
    pub fn chain<Word, State, P, const PRECISION: usize>() -> Result<(), String>
    where
        Word: BitArray + Into<State> + AsPrimitive<P>,
        State: BitArray + AsPrimitive<Word>,
        P: BitArray + Into<Word>,
        u64: AsPrimitive<Word>,
    {
        let model = Dm::<P, PRECISION>::new();
        let mut x = 0x9E37_79B9_7F4A_7C15u64;
        let data: Vec<Word> = (0..64)
            .map(|_| {
                x = x.wrapping_mul(6364136223846793005).wrapping_add(1442695040888963407);
                (x >> 11).as_()
            })
            .collect();
        let mut coder =
            ChainCoder::<Word, State, Vec<Word>, Vec<Word>, PRECISION>::from_binary(data.clone())
                .map_err(|_| "from_binary failed".to_string())?;
        let mut symbols = Vec::new();
        for _ in 0..16 {
            symbols.push(Decode::<PRECISION>::decode_symbol(&mut coder, model).map_err(dbg)?);
        }
        for &s in symbols.iter().rev() {
            Encode::<PRECISION>::encode_symbol(&mut coder, s, model).map_err(dbg)?;
        }
        let (prefix, suffix) = coder
            .into_binary()
            .map_err(|_| "into_binary failed after re-encoding all decoded symbols".to_string())?;
        let mut rec = prefix;
        rec.extend(suffix);
        if rec != data {
            return Err(format!(
                "chain coder (Word={} bits, State={} bits, PRECISION={}): decode then encode does not restore the binary data",
                Word::BITS, State::BITS, PRECISION
            ));
        }
        Ok(())
    }

    /// Consistency of a model that claims to be a `PRECISION`-bit fixed point distribution:
    /// contiguous cumulatives from 0 up to `2^PRECISION` (wrapping), quantile function inverts
    /// the cumulative.
    pub fn model<'m, M, const PRECISION: usize>(m: &'m M) -> Result<(), String>
    where
        M: IterableEntropyModel<'m, PRECISION> + DecoderModel<PRECISION>,
        M::Symbol: fmt::Debug + PartialEq,
    {
        let mut acc = M::Probability::zero();
        let mut n = 0usize;
        for (s, left, p) in m.symbol_table() {
            if left != acc {
                return Err(format!("symbol table not contiguous at {s:?}: left cumulative {left} after {acc}"));
            }
            let (s2, left2, p2) = m.quantile_function(left);
            if s2 != s || left2 != left || p2 != p {
                return Err(format!("quantile_function({left}) = ({s2:?}, {left2}, {p2}) but the symbol table has ({s:?}, {left}, {p})"));
            }
            acc = acc.wrapping_add(&p.get());
            n += 1;
        }
        if acc != wpow2::<M::Probability>(PRECISION) || n == 0 {
            return Err(format!(
                "probabilities of {n} symbols add up to {acc} instead of 2^{PRECISION} (mod 2^{})",
                M::Probability::BITS
            ));
        }
        if PRECISION == 0 || PRECISION > M::Probability::BITS {
            return Err(format!(
                "a model with PRECISION={PRECISION} and a {}-bit Probability was constructed",
                M::Probability::BITS
            ));
        }
        Ok(())
    }

    /// For models without a symbol table (lazy models): `quantile_function` must invert
    /// `left_cumulative_and_probability` on the symbols `0..n`, whose probabilities must add up to
    /// `2^PRECISION`.
    pub fn encdec_model<M, const PRECISION: usize>(m: &M, n: usize) -> Result<(), String>
    where
        M: EncoderModel<PRECISION, Symbol = usize> + DecoderModel<PRECISION>,
    {
        if PRECISION == 0 || PRECISION > M::Probability::BITS {
            return Err(format!(
                "a model with PRECISION={PRECISION} and a {}-bit Probability was constructed",
                M::Probability::BITS
            ));
        }
        let mut acc = M::Probability::zero();
        for s in 0..n {
            let (left, p) = m
                .left_cumulative_and_probability(s)
                .ok_or_else(|| format!("symbol {s} has zero probability"))?;
            if left != acc {
                return Err(format!("left cumulative of symbol {s} is {left} after {acc}"));
            }
            let (s2, left2, p2) = m.quantile_function(left);
            if s2 != s || left2 != left || p2 != p {
                return Err(format!("quantile_function({left}) = ({s2}, {left2}, {p2}) but symbol {s} has ({left}, {p})"));
            }
            acc = acc.wrapping_add(&p.get());
        }
        if acc != wpow2::<M::Probability>(PRECISION) {
            return Err(format!("probabilities of {n} symbols add up to {acc} instead of 2^{PRECISION}"));
        }
        Ok(())
    }

    /// For decoder-only models (lookup tables): every quantile below `2^PRECISION` (at most the
    /// first 4096) must map into a slot that contains it.
    pub fn decoder_model<M, const PRECISION: usize>(m: &M) -> Result<(), String>
    where
        M: DecoderModel<PRECISION>,
        M::Symbol: fmt::Debug,
        usize: AsPrimitive<M::Probability>,
    {
        if PRECISION == 0 || PRECISION > M::Probability::BITS {
            return Err(format!(
                "a model with PRECISION={PRECISION} and a {}-bit Probability was constructed",
                M::Probability::BITS
            ));
        }
        let n = if PRECISION >= 12 { 4096 } else { 1usize << PRECISION };
        for q in 0..n {
            let q: M::Probability = q.as_();
            let (s, left, p) = m.quantile_function(q);
            if q < left || q.wrapping_sub(&left) >= p.get() {
                return Err(format!("quantile_function({q}) = ({s:?}, {left}, {p}) does not contain the quantile"));
            }
        }
        Ok(())
    }
}
