//! control: PRECISION == Word::BITS, State::BITS == Word::BITS + PRECISION, PRECISION == 1, NEW_PRECISION == PRECISION, NEW_PRECISION == Word::BITS, NEW_PRECISION == 1
//! expect: compiles
#![allow(unused_imports, unused_mut, unused_variables, deprecated)]
use constriction::backends::Cursor;
use constriction::stream::chain::ChainCoder;
use constriction::stream::model::*;
use constriction::stream::queue::{RangeDecoder, RangeEncoder};
use constriction::stream::stack::AnsCoder;
use constriction::stream::{Decode, Encode};
use guardprobes::*;

fn main() {
    if never() {
        macro_rules! all {
            ($W:ty, $S:ty, $P:literal, $UP:literal, $DOWN:literal) => {{
                type C = ChainCoder<$W, $S, Vec<$W>, Vec<$W>, $P>;
                let _ = C::from_binary(make());
                let _ = C::from_compressed(make());
                let _ = C::from_remainders(make());
                let mut c: C = make();
                let _ = Decode::<$P>::decode_symbol(&mut c, Dm::<$W, $P>::new());
                let _ = Encode::<$P>::encode_symbol(&mut c, 0usize, Dm::<$W, $P>::new());
                let _ = make::<C>().increase_precision::<$UP>();
                let _ = make::<C>().increase_precision::<$P>();
                let _ = make::<C>().decrease_precision::<$DOWN>();
                let _ = make::<C>().decrease_precision::<$P>();
                let _ = make::<C>().change_precision::<$UP>();
                let _ = make::<C>().change_precision::<$DOWN>();
                let _ = make::<C>().change_precision::<$P>();
            }};
        }
        all!(u32, u64, 32, 32, 1);
        all!(u32, u64, 1, 32, 1);
        all!(u32, u64, 24, 32, 1);
        all!(u16, u32, 16, 16, 1);
        all!(u16, u32, 12, 16, 1);
        all!(u8, u16, 8, 8, 1);
        all!(u16, u64, 16, 16, 1);
        all!(u64, u128, 64, 64, 1);
    }
}
