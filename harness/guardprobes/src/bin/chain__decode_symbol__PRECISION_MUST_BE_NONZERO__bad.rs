//! covers: src/stream/chain.rs::decode_symbol::PRECISION_MUST_BE_NONZERO
//! site: <ChainCoder<u32, u64, Vec<u32>, Vec<u32>, 0> as Decode<0>>::decode_symbol
//! violates: PRECISION > 0 (0 > 0); holds: 0 <= 32, 64 >= 32
//! expect: compile-fail (E0080 naming the label)
#![allow(unused_imports, unused_mut, unused_variables, deprecated)]
use constriction::backends::Cursor;
use constriction::stream::chain::ChainCoder;
use constriction::stream::model::*;
use constriction::stream::queue::{RangeDecoder, RangeEncoder};
use constriction::stream::stack::AnsCoder;
use constriction::stream::{Decode, Encode};
use guardprobes::*;

fn main() {
    #[cfg(feature = "witness")]
    if witness_requested() {
        run_witness("chain__decode_symbol__PRECISION_MUST_BE_NONZERO__bad", || {
            witness::chain::<u32, u64, u32, 0>()
        });
    }
    if never() {
        let mut c: ChainCoder<u32, u64, Vec<u32>, Vec<u32>, 0> = make();
        let _ = Decode::<0>::decode_symbol(&mut c, Dm::<u32, 0>::new());
    }
}
