//! covers: src/stream/model/categorical.rs::perfectly_quantized_probabilities::PRECISION_MUST_BE_NONZERO
//! site: perfectly_quantized_probabilities (private) via ContiguousCategoricalEntropyModel<u8, Vec<u8>, 0>::from_floating_point_probabilities_perfect::<f64>
//! violates: PRECISION > 0 (0 > 0); holds: 0 <= 8
//! note: every public path into perfectly_quantized_probabilities continues into accumulate_nonzero_probabilities, which asserts the same label: two sites fire, the probe stays OK as long as one of them does
//! expect: compile-fail (E0080 naming the label)
#![allow(unused_imports, unused_mut, unused_variables, deprecated)]
use constriction::backends::Cursor;
use constriction::stream::chain::ChainCoder;
use constriction::stream::model::*;
use constriction::stream::queue::{RangeDecoder, RangeEncoder};
use constriction::stream::stack::AnsCoder;
use constriction::stream::{Decode, Encode};
use guardprobes::*;

fn main() {
    #[cfg(feature = "witness")]
    if witness_requested() {
        run_witness("cat__perfectly_quantized_probabilities-contiguous__PRECISION_MUST_BE_NONZERO__bad", || {
            let m = ContiguousCategoricalEntropyModel::<u8, Vec<u8>, 0>::from_floating_point_probabilities_perfect::<f64>(&[0.25, 0.75]).map_err(|_| "constructor returned Err".to_string())?;
            witness::model::<_, 0>(&m)
        });
    }
    if never() {
        let _m = ContiguousCategoricalEntropyModel::<u8, Vec<u8>, 0>::from_floating_point_probabilities_perfect::<f64>(&[0.25, 0.75]);
    }
}
