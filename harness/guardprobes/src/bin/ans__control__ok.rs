//! control: State::BITS == 2 * Word::BITS, State::BITS == Word::BITS + PRECISION, PRECISION == 1, non-power-of-two State (Bx<48> over u16)
//! expect: compiles
#![allow(unused_imports, unused_mut, unused_variables, deprecated)]
use constriction::backends::Cursor;
use constriction::stream::chain::ChainCoder;
use constriction::stream::model::*;
use constriction::stream::queue::{RangeDecoder, RangeEncoder};
use constriction::stream::stack::AnsCoder;
use constriction::stream::{Decode, Encode};
use guardprobes::*;

fn main() {
    if never() {
        macro_rules! all {
            ($W:ty, $S:ty, $Pr:ty, $P:literal) => {{
                let mut c = <AnsCoder<$W, $S, Vec<$W>> as Default>::default();
                let _ = AnsCoder::<$W, $S, Vec<$W>>::from_compressed(make());
                let _ = Encode::<$P>::encode_symbol(&mut c, 0usize, Dm::<$Pr, $P>::new());
                let _ = Decode::<$P>::decode_symbol(&mut c, Dm::<$Pr, $P>::new());
            }};
        }
        all!(u32, u64, u32, 32);
        all!(u32, u64, u32, 1);
        all!(u16, u32, u16, 16);
        all!(u8, u16, u8, 8);
        all!(u64, u128, u64, 64);
        all!(u16, u64, u16, 48);
        all!(u16, Bx<48>, u16, 32);
        all!(u16, Bx<32>, u16, 16);
    }
}
