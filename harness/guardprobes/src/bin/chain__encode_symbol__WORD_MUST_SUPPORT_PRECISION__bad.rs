//! covers: src/stream/chain.rs::encode_symbol::WORD_MUST_SUPPORT_PRECISION
//! site: <ChainCoder<u16, u64, Vec<u16>, Vec<u16>, 17> as Encode<17>>::encode_symbol
//! violates: PRECISION <= Word::BITS (17 <= 16); holds: 17 > 0, 64 >= 33
//! expect: compile-fail (E0080 naming the label)
#![allow(unused_imports, unused_mut, unused_variables, deprecated)]
use constriction::backends::Cursor;
use constriction::stream::chain::ChainCoder;
use constriction::stream::model::*;
use constriction::stream::queue::{RangeDecoder, RangeEncoder};
use constriction::stream::stack::AnsCoder;
use constriction::stream::{Decode, Encode};
use guardprobes::*;

fn main() {
    #[cfg(feature = "witness")]
    if witness_requested() {
        run_witness("chain__encode_symbol__WORD_MUST_SUPPORT_PRECISION__bad", || {
            witness::chain::<u16, u64, u16, 17>()
        });
    }
    if never() {
        let mut c: ChainCoder<u16, u64, Vec<u16>, Vec<u16>, 17> = make();
        let _ = Encode::<17>::encode_symbol(&mut c, 0usize, Dm::<u16, 17>::new());
    }
}
