//! covers: src/stream/model/categorical/lookup_contiguous.rs::from_nonzero_fixed_point_probabilities::PRECISION_MUST_BE_NONZERO
//! site: ContiguousLookupDecoderModel<u8, Vec<u8>, Box<[u8]>, 0>::from_nonzero_fixed_point_probabilities
//! violates: PRECISION > 0 (0 > 0); holds: 0 <= 8, 0 < 64
//! note: the same label also fires in the private helper accumulate_nonzero_probabilities (categorical.rs) called from here
//! expect: compile-fail (E0080 naming the label)
#![allow(unused_imports, unused_mut, unused_variables, deprecated)]
use constriction::backends::Cursor;
use constriction::stream::chain::ChainCoder;
use constriction::stream::model::*;
use constriction::stream::queue::{RangeDecoder, RangeEncoder};
use constriction::stream::stack::AnsCoder;
use constriction::stream::{Decode, Encode};
use guardprobes::*;

fn main() {
    #[cfg(feature = "witness")]
    if witness_requested() {
        run_witness("cat__from_nonzero_fixed_point_probabilities__PRECISION_MUST_BE_NONZERO__bad", || {
            let p: Vec<u8> = vec![1, 1];
            let m = ContiguousLookupDecoderModel::<u8, Vec<u8>, Box<[u8]>, 0>::from_nonzero_fixed_point_probabilities(p.iter(), true).map_err(|_| "constructor returned Err".to_string())?;
            witness::decoder_model::<_, 0>(&m)
        });
    }
    if never() {
        let p: Vec<u8> = make();
        let _m = ContiguousLookupDecoderModel::<u8, Vec<u8>, Box<[u8]>, 0>::from_nonzero_fixed_point_probabilities(p.iter(), false);
    }
}
