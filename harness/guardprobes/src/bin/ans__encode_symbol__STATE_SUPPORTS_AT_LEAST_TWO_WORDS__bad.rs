//! covers: src/stream/stack.rs::encode_symbol::STATE_SUPPORTS_AT_LEAST_TWO_WORDS
//! site: <AnsCoder<u32, Bx<48>, Vec<u32>> as Encode<8>>::encode_symbol
//! violates: State::BITS >= 2 * Word::BITS (48 >= 64); holds: 48 >= 32 + 8, 8 > 0
//! expect: compile-fail (E0080 naming the label)
#![allow(unused_imports, unused_mut, unused_variables, deprecated)]
use constriction::backends::Cursor;
use constriction::stream::chain::ChainCoder;
use constriction::stream::model::*;
use constriction::stream::queue::{RangeDecoder, RangeEncoder};
use constriction::stream::stack::AnsCoder;
use constriction::stream::{Decode, Encode};
use guardprobes::*;

fn main() {
    #[cfg(feature = "witness")]
    if witness_requested() {
        run_witness("ans__encode_symbol__STATE_SUPPORTS_AT_LEAST_TWO_WORDS__bad", || {
            witness::ans::<u32, Bx<48>, u32, 8>()
        });
    }
    if never() {
        let mut c: AnsCoder<u32, Bx<48>, Vec<u32>> = make();
        let _ = Encode::<8>::encode_symbol(&mut c, 0usize, Dm::<u32, 8>::new());
    }
}
