//! covers: src/stream/model/categorical/lookup_noncontiguous.rs::quantile_function::PRECISION_MUST_BE_NONZERO
//! site: <NonContiguousLookupDecoderModel<usize, u8, Vec<(u8, usize)>, Box<[u8]>, 0> as DecoderModel<0>>::quantile_function
//! violates: PRECISION > 0 (0 > 0); holds: 0 <= 8
//! expect: compile-fail (E0080 naming the label)
#![allow(unused_imports, unused_mut, unused_variables, deprecated)]
use constriction::backends::Cursor;
use constriction::stream::chain::ChainCoder;
use constriction::stream::model::*;
use constriction::stream::queue::{RangeDecoder, RangeEncoder};
use constriction::stream::stack::AnsCoder;
use constriction::stream::{Decode, Encode};
use guardprobes::*;

fn main() {
    if never() {
        let m: NonContiguousLookupDecoderModel<usize, u8, Vec<(u8, usize)>, Box<[u8]>, 0> = make();
        let _ = DecoderModel::<0>::quantile_function(&m, 0);
    }
}
