//! covers: src/stream/queue.rs::from_compressed::STATE_SIZE_IS_MULTIPLE_OF_WORD_SIZE
//! site: RangeDecoder::<u16, Bx<40>, Cursor<u16, Vec<u16>>>::from_compressed
//! violates: State::BITS % Word::BITS == 0 (40 % 16 == 8); holds: 40 >= 32
//! expect: compile-fail (E0080 naming the label)
#![allow(unused_imports, unused_mut, unused_variables, deprecated)]
use constriction::backends::Cursor;
use constriction::stream::chain::ChainCoder;
use constriction::stream::model::*;
use constriction::stream::queue::{RangeDecoder, RangeEncoder};
use constriction::stream::stack::AnsCoder;
use constriction::stream::{Decode, Encode};
use guardprobes::*;

fn main() {
    #[cfg(feature = "witness")]
    if witness_requested() {
        run_witness("range__from_compressed__STATE_SIZE_IS_MULTIPLE_OF_WORD_SIZE__bad", || {
            witness::range::<u16, Bx<40>, u16, 8>()
        });
    }
    if never() {
        let _c = RangeDecoder::<u16, Bx<40>, Cursor<u16, Vec<u16>>>::from_compressed(make::<Vec<u16>>());
    }
}
