//! covers: src/stream/model/categorical/lookup_contiguous.rs::from_floating_point_probabilities_fast::USIZE_MUST_STRICTLY_SUPPORT_PRECISION
//! site: ContiguousLookupDecoderModel<usize, Vec<usize>, Box<[usize]>, 64>::from_floating_point_probabilities_fast::<f64>
//! violates: PRECISION < usize::BITS (64 < 64); holds: 64 <= 64, 64 > 0
//! expect: compile-fail (E0080 naming the label)
#![allow(unused_imports, unused_mut, unused_variables, deprecated)]
use constriction::backends::Cursor;
use constriction::stream::chain::ChainCoder;
use constriction::stream::model::*;
use constriction::stream::queue::{RangeDecoder, RangeEncoder};
use constriction::stream::stack::AnsCoder;
use constriction::stream::{Decode, Encode};
use guardprobes::*;

fn main() {
    #[cfg(feature = "witness")]
    if witness_requested() {
        run_witness("cat__from_floating_point_probabilities_fast-lookup__USIZE_MUST_STRICTLY_SUPPORT_PRECISION__bad", || {
            let m = ContiguousLookupDecoderModel::<usize, Vec<usize>, Box<[usize]>, 64>::from_floating_point_probabilities_fast::<f64>(&[0.25, 0.75], None).map_err(|_| "constructor returned Err".to_string())?;
            witness::decoder_model::<_, 64>(&m)
        });
    }
    if never() {
        let _m = ContiguousLookupDecoderModel::<usize, Vec<usize>, Box<[usize]>, 64>::from_floating_point_probabilities_fast::<f64>(&[0.25, 0.75], None);
    }
}
