//! covers: src/stream/queue.rs::for_compressed::STATE_SUPPORTS_AT_LEAST_TWO_WORDS
//! site: RangeDecoder::<u32, u32, Cursor<u32, &[u32]>>::for_compressed
//! violates: State::BITS >= 2 * Word::BITS (32 >= 64); holds: 32 % 32 == 0
//! expect: compile-fail (E0080 naming the label)
#![allow(unused_imports, unused_mut, unused_variables, deprecated)]
use constriction::backends::Cursor;
use constriction::stream::chain::ChainCoder;
use constriction::stream::model::*;
use constriction::stream::queue::{RangeDecoder, RangeEncoder};
use constriction::stream::stack::AnsCoder;
use constriction::stream::{Decode, Encode};
use guardprobes::*;

fn main() {
    #[cfg(feature = "witness")]
    if witness_requested() {
        run_witness("range__for_compressed__STATE_SUPPORTS_AT_LEAST_TWO_WORDS__bad", || {
            witness::range::<u32, u32, u32, 1>()
        });
    }
    if never() {
        let v: Vec<u32> = make();
        let _c = RangeDecoder::<u32, u32, Cursor<u32, &[u32]>>::for_compressed(&v);
    }
}
