//! covers: src/stream/model/categorical.rs::accumulate_nonzero_probabilities::PROBABILITY_MUST_SUPPORT_PRECISION
//! site: accumulate_nonzero_probabilities (private) via NonContiguousCategoricalEncoderModel<usize, u8, 9>::from_symbols_and_nonzero_fixed_point_probabilities
//! violates: PRECISION <= Probability::BITS (9 <= 8); holds: 9 > 0
//! expect: compile-fail (E0080 naming the label)
#![allow(unused_imports, unused_mut, unused_variables, deprecated)]
use constriction::backends::Cursor;
use constriction::stream::chain::ChainCoder;
use constriction::stream::model::*;
use constriction::stream::queue::{RangeDecoder, RangeEncoder};
use constriction::stream::stack::AnsCoder;
use constriction::stream::{Decode, Encode};
use guardprobes::*;

fn main() {
    #[cfg(feature = "witness")]
    if witness_requested() {
        run_witness("cat__accumulate_nonzero_probabilities-noncontiguous_enc__PROBABILITY_MUST_SUPPORT_PRECISION__bad", || {
            let _m = NonContiguousCategoricalEncoderModel::<usize, u8, 9>::from_symbols_and_nonzero_fixed_point_probabilities(0usize..3, [1u8, 1].iter(), true).map_err(|_| "constructor returned Err".to_string())?;
            Err("an encoder model with PRECISION=9 over u8 was constructed".to_string())
        });
    }
    if never() {
        let _m = NonContiguousCategoricalEncoderModel::<usize, u8, 9>::from_symbols_and_nonzero_fixed_point_probabilities(0usize..3, [1u8, 1].iter(), true);
    }
}
