//! covers: src/stream/model/categorical.rs::fast_quantized_cdf::PRECISION_MUST_BE_NONZERO
//! site: fast_quantized_cdf (private) via NonContiguousCategoricalDecoderModel<usize, u8, Vec<(u8, usize)>, 0>::from_symbols_and_floating_point_probabilities_fast::<f64>
//! violates: PRECISION > 0 (0 > 0); holds: 0 <= 8
//! expect: compile-fail (E0080 naming the label)
#![allow(unused_imports, unused_mut, unused_variables, deprecated)]
use constriction::backends::Cursor;
use constriction::stream::chain::ChainCoder;
use constriction::stream::model::*;
use constriction::stream::queue::{RangeDecoder, RangeEncoder};
use constriction::stream::stack::AnsCoder;
use constriction::stream::{Decode, Encode};
use guardprobes::*;

fn main() {
    #[cfg(feature = "witness")]
    if witness_requested() {
        run_witness("cat__fast_quantized_cdf-noncontiguous_dec__PRECISION_MUST_BE_NONZERO__bad", || {
            let m = NonContiguousCategoricalDecoderModel::<usize, u8, Vec<(u8, usize)>, 0>::from_symbols_and_floating_point_probabilities_fast::<f64>(0usize..2, &[0.25, 0.75], None).map_err(|_| "constructor returned Err".to_string())?;
            witness::model::<_, 0>(&m)
        });
    }
    if never() {
        let _m = NonContiguousCategoricalDecoderModel::<usize, u8, Vec<(u8, usize)>, 0>::from_symbols_and_floating_point_probabilities_fast::<f64>(0usize..2, &[0.25, 0.75], None);
    }
}
