//! covers: src/stream/model/categorical/lookup_noncontiguous.rs::from_symbol_table::PROBABILITY_MUST_SUPPORT_PRECISION
//! site: NonContiguousLookupDecoderModel<usize, u8, Vec<(u8, usize)>, Box<[u8]>, 9>::from_symbol_table (private) via ::from_iterable_entropy_model::<Dm<u8, 9>>
//! violates: PRECISION <= Probability::BITS (9 <= 8); holds: 9 > 0, 9 < 64
//! expect: compile-fail (E0080 naming the label)
#![allow(unused_imports, unused_mut, unused_variables, deprecated)]
use constriction::backends::Cursor;
use constriction::stream::chain::ChainCoder;
use constriction::stream::model::*;
use constriction::stream::queue::{RangeDecoder, RangeEncoder};
use constriction::stream::stack::AnsCoder;
use constriction::stream::{Decode, Encode};
use guardprobes::*;

fn main() {
    #[cfg(feature = "witness")]
    if witness_requested() {
        run_witness("cat__from_symbol_table__PROBABILITY_MUST_SUPPORT_PRECISION__bad", || {
            let src = Dm::<u8, 9>::new();
            let m = NonContiguousLookupDecoderModel::<usize, u8, Vec<(u8, usize)>, Box<[u8]>, 9>::from_iterable_entropy_model(&src);
            witness::decoder_model::<_, 9>(&m)
        });
    }
    if never() {
        let src: Dm<u8, 9> = make();
        let _m = NonContiguousLookupDecoderModel::<usize, u8, Vec<(u8, usize)>, Box<[u8]>, 9>::from_iterable_entropy_model(&src);
    }
}
