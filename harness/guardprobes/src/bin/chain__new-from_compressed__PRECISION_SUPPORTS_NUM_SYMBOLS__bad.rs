//! covers: src/stream/chain.rs::new::PRECISION_SUPPORTS_NUM_SYMBOLS
//! site: ChainCoderHeads::<u16, u64, 17>::new (private) via ChainCoder<u16, u64, Vec<u16>, Vec<u16>, 17>::from_compressed
//! violates: PRECISION <= Word::BITS (17 <= 16); holds: 64 >= 33, 17 > 0
//! expect: compile-fail (E0080 naming the label)
#![allow(unused_imports, unused_mut, unused_variables, deprecated)]
use constriction::backends::Cursor;
use constriction::stream::chain::ChainCoder;
use constriction::stream::model::*;
use constriction::stream::queue::{RangeDecoder, RangeEncoder};
use constriction::stream::stack::AnsCoder;
use constriction::stream::{Decode, Encode};
use guardprobes::*;

fn main() {
    #[cfg(feature = "witness")]
    if witness_requested() {
        run_witness("chain__new-from_compressed__PRECISION_SUPPORTS_NUM_SYMBOLS__bad", || {
            witness::chain::<u16, u64, u16, 17>()
        });
    }
    if never() {
        let _c = ChainCoder::<u16, u64, Vec<u16>, Vec<u16>, 17>::from_compressed(make());
    }
}
