//! covers: src/stream/queue.rs::with_backend::STATE_SUPPORTS_AT_LEAST_TWO_WORDS
//! site: RangeEncoder::<u32, u32, Vec<u32>>::with_backend
//! violates: State::BITS >= 2 * Word::BITS (32 >= 64); holds: 32 % 32 == 0
//! expect: compile-fail (E0080 naming the label)
#![allow(unused_imports, unused_mut, unused_variables, deprecated)]
use constriction::backends::Cursor;
use constriction::stream::chain::ChainCoder;
use constriction::stream::model::*;
use constriction::stream::queue::{RangeDecoder, RangeEncoder};
use constriction::stream::stack::AnsCoder;
use constriction::stream::{Decode, Encode};
use guardprobes::*;

fn main() {
    #[cfg(feature = "witness")]
    if witness_requested() {
        run_witness("range__with_backend-enc__STATE_SUPPORTS_AT_LEAST_TWO_WORDS__bad", || {
            witness::range::<u32, u32, u32, 1>()
        });
    }
    if never() {
        let _c = RangeEncoder::<u32, u32, Vec<u32>>::with_backend(make());
    }
}
