//! control: State::BITS == 2 * Word::BITS, State::BITS == Word::BITS + PRECISION, PRECISION == 1, State = 3 words (Bx<48> over u16), State = 8 words
//! expect: compiles
#![allow(unused_imports, unused_mut, unused_variables, deprecated)]
use constriction::backends::Cursor;
use constriction::stream::chain::ChainCoder;
use constriction::stream::model::*;
use constriction::stream::queue::{RangeDecoder, RangeEncoder};
use constriction::stream::stack::AnsCoder;
use constriction::stream::{Decode, Encode};
use guardprobes::*;

fn main() {
    if never() {
        macro_rules! all {
            ($W:ty, $S:ty, $Pr:ty, $P:literal) => {{
                let _ = RangeEncoder::<$W, $S>::new();
                let mut e = RangeEncoder::<$W, $S, Vec<$W>>::with_backend(make());
                let _ = RangeEncoder::<$W, $S, Vec<$W>>::from_raw_parts(make(), make(), make());
                let _ = Encode::<$P>::encode_symbol(&mut e, 0usize, Dm::<$Pr, $P>::new());
                let _ = RangeDecoder::<$W, $S, Cursor<$W, Vec<$W>>>::from_compressed(make::<Vec<$W>>());
                let mut d = RangeDecoder::<$W, $S, Cursor<$W, Vec<$W>>>::with_backend(make()).unwrap();
                let v: Vec<$W> = make();
                let _ = RangeDecoder::<$W, $S, Cursor<$W, &[$W]>>::for_compressed(&v);
                let _ = RangeDecoder::<$W, $S, Cursor<$W, Vec<$W>>>::from_raw_parts(make(), make(), make());
                let _ = Decode::<$P>::decode_symbol(&mut d, Dm::<$Pr, $P>::new());
            }};
        }
        all!(u32, u64, u32, 32);
        all!(u32, u64, u32, 1);
        all!(u16, u32, u16, 16);
        all!(u8, u16, u8, 8);
        all!(u64, u128, u64, 64);
        all!(u8, u64, u8, 56);
        all!(u16, Bx<48>, u16, 32);
        all!(u16, Bx<32>, u16, 16);
    }
}
