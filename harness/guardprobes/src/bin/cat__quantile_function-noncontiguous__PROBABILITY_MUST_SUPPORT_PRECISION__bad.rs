//! covers: src/stream/model/categorical/lookup_noncontiguous.rs::quantile_function::PROBABILITY_MUST_SUPPORT_PRECISION
//! site: <NonContiguousLookupDecoderModel<usize, u8, Vec<(u8, usize)>, Box<[u8]>, 9> as DecoderModel<9>>::quantile_function
//! violates: PRECISION <= Probability::BITS (9 <= 8); holds: 9 > 0
//! expect: compile-fail (E0080 naming the label)
#![allow(unused_imports, unused_mut, unused_variables, deprecated)]
use constriction::backends::Cursor;
use constriction::stream::chain::ChainCoder;
use constriction::stream::model::*;
use constriction::stream::queue::{RangeDecoder, RangeEncoder};
use constriction::stream::stack::AnsCoder;
use constriction::stream::{Decode, Encode};
use guardprobes::*;

fn main() {
    if never() {
        let m: NonContiguousLookupDecoderModel<usize, u8, Vec<(u8, usize)>, Box<[u8]>, 9> = make();
        let _ = DecoderModel::<9>::quantile_function(&m, 0);
    }
}
