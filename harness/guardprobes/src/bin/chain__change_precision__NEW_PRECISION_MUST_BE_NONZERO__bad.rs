//! covers: src/stream/chain.rs::change_precision::NEW_PRECISION_MUST_BE_NONZERO
//! site: ChainCoder<u32, u64, Vec<u32>, Vec<u32>, 8>::change_precision::<0>
//! violates: NEW_PRECISION > 0 (0 > 0); holds: 0 <= 32, 64 >= 32
//! expect: compile-fail (E0080 naming the label)
#![allow(unused_imports, unused_mut, unused_variables, deprecated)]
use constriction::backends::Cursor;
use constriction::stream::chain::ChainCoder;
use constriction::stream::model::*;
use constriction::stream::queue::{RangeDecoder, RangeEncoder};
use constriction::stream::stack::AnsCoder;
use constriction::stream::{Decode, Encode};
use guardprobes::*;

fn main() {
    if never() {
        let c: ChainCoder<u32, u64, Vec<u32>, Vec<u32>, 8> = make();
        let _ = c.change_precision::<0>();
    }
}
