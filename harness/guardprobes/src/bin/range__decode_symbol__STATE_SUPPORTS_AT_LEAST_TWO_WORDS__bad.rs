//! covers: src/stream/queue.rs::decode_symbol::STATE_SUPPORTS_AT_LEAST_TWO_WORDS
//! site: <RangeDecoder<u32, u32, Cursor<u32, Vec<u32>>> as Decode<1>>::decode_symbol
//! violates: State::BITS >= 2 * Word::BITS (32 >= 64); holds: 1 > 0, 32 % 32 == 0
//! also-violates: PROBABILITY_SUPPORTS_PRECISION
//! implied-by: PROBABILITY_SUPPORTS_PRECISION, NON_ZERO_PRECISION, STATE_SIZE_IS_MULTIPLE_OF_WORD_SIZE (State % Word == 0 and State >= Word + PRECISION > Word give State >= 2 * Word: this label cannot be violated alone here)
//! expect: compile-fail (E0080 naming the label)
#![allow(unused_imports, unused_mut, unused_variables, deprecated)]
use constriction::backends::Cursor;
use constriction::stream::chain::ChainCoder;
use constriction::stream::model::*;
use constriction::stream::queue::{RangeDecoder, RangeEncoder};
use constriction::stream::stack::AnsCoder;
use constriction::stream::{Decode, Encode};
use guardprobes::*;

fn main() {
    #[cfg(feature = "witness")]
    if witness_requested() {
        run_witness("range__decode_symbol__STATE_SUPPORTS_AT_LEAST_TWO_WORDS__bad", || {
            witness::range::<u32, u32, u32, 1>()
        });
    }
    if never() {
        let mut c: RangeDecoder<u32, u32, Cursor<u32, Vec<u32>>> = make();
        let _ = Decode::<1>::decode_symbol(&mut c, Dm::<u32, 1>::new());
    }
}
