//! covers: src/stream/model/uniform.rs::new::PROBABILITY_MUST_SUPPORT_PRECISION
//! site: UniformModel::<u8, 9>::new
//! violates: PRECISION <= Probability::BITS (9 <= 8); holds: 9 > 0, 9 <= 64
//! expect: compile-fail (E0080 naming the label)
#![allow(unused_imports, unused_mut, unused_variables, deprecated)]
use constriction::backends::Cursor;
use constriction::stream::chain::ChainCoder;
use constriction::stream::model::*;
use constriction::stream::queue::{RangeDecoder, RangeEncoder};
use constriction::stream::stack::AnsCoder;
use constriction::stream::{Decode, Encode};
use guardprobes::*;

fn main() {
    #[cfg(feature = "witness")]
    if witness_requested() {
        run_witness("cat__new-uniform__PROBABILITY_MUST_SUPPORT_PRECISION__bad", || {
            let m = UniformModel::<u8, 9>::new(3);
            witness::model::<_, 9>(&m)
        });
    }
    if never() {
        let _m = UniformModel::<u8, 9>::new(2);
    }
}
