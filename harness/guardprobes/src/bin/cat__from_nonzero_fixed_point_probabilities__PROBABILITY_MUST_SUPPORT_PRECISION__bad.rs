//! covers: src/stream/model/categorical/lookup_contiguous.rs::from_nonzero_fixed_point_probabilities::PROBABILITY_MUST_SUPPORT_PRECISION
//! site: ContiguousLookupDecoderModel<u8, Vec<u8>, Box<[u8]>, 9>::from_nonzero_fixed_point_probabilities
//! violates: PRECISION <= Probability::BITS (9 <= 8); holds: 9 > 0, 9 < 64
//! note: the same label also fires in the private helper accumulate_nonzero_probabilities (categorical.rs) called from here
//! expect: compile-fail (E0080 naming the label)
#![allow(unused_imports, unused_mut, unused_variables, deprecated)]
use constriction::backends::Cursor;
use constriction::stream::chain::ChainCoder;
use constriction::stream::model::*;
use constriction::stream::queue::{RangeDecoder, RangeEncoder};
use constriction::stream::stack::AnsCoder;
use constriction::stream::{Decode, Encode};
use guardprobes::*;

fn main() {
    #[cfg(feature = "witness")]
    if witness_requested() {
        run_witness("cat__from_nonzero_fixed_point_probabilities__PROBABILITY_MUST_SUPPORT_PRECISION__bad", || {
            let p: Vec<u8> = vec![1, 1];
            let m = ContiguousLookupDecoderModel::<u8, Vec<u8>, Box<[u8]>, 9>::from_nonzero_fixed_point_probabilities(p.iter(), true).map_err(|_| "constructor returned Err".to_string())?;
            witness::decoder_model::<_, 9>(&m)
        });
    }
    if never() {
        let p: Vec<u8> = make();
        let _m = ContiguousLookupDecoderModel::<u8, Vec<u8>, Box<[u8]>, 9>::from_nonzero_fixed_point_probabilities(p.iter(), false);
    }
}
