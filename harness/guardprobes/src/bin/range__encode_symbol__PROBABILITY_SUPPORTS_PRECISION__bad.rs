//! covers: src/stream/queue.rs::encode_symbol::PROBABILITY_SUPPORTS_PRECISION
//! site: <RangeEncoder<u32, u64, Vec<u32>> as Encode<33>>::encode_symbol
//! violates: State::BITS >= Word::BITS + PRECISION (64 >= 65); holds: 33 > 0, 64 >= 64, 64 % 32 == 0
//! expect: compile-fail (E0080 naming the label)
#![allow(unused_imports, unused_mut, unused_variables, deprecated)]
use constriction::backends::Cursor;
use constriction::stream::chain::ChainCoder;
use constriction::stream::model::*;
use constriction::stream::queue::{RangeDecoder, RangeEncoder};
use constriction::stream::stack::AnsCoder;
use constriction::stream::{Decode, Encode};
use guardprobes::*;

fn main() {
    #[cfg(feature = "witness")]
    if witness_requested() {
        run_witness("range__encode_symbol__PROBABILITY_SUPPORTS_PRECISION__bad", || {
            witness::range::<u32, u64, u32, 33>()
        });
    }
    if never() {
        let mut c: RangeEncoder<u32, u64, Vec<u32>> = make();
        let _ = Encode::<33>::encode_symbol(&mut c, 0usize, Dm::<u32, 33>::new());
    }
}
