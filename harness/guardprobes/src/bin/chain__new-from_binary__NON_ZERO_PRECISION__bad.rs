//! covers: src/stream/chain.rs::new::NON_ZERO_PRECISION
//! site: ChainCoderHeads::<u32, u64, 0>::new (private) via ChainCoder<u32, u64, Vec<u32>, Vec<u32>, 0>::from_binary
//! violates: PRECISION > 0 (0 > 0); holds: 64 >= 32, 0 <= 32
//! expect: compile-fail (E0080 naming the label)
#![allow(unused_imports, unused_mut, unused_variables, deprecated)]
use constriction::backends::Cursor;
use constriction::stream::chain::ChainCoder;
use constriction::stream::model::*;
use constriction::stream::queue::{RangeDecoder, RangeEncoder};
use constriction::stream::stack::AnsCoder;
use constriction::stream::{Decode, Encode};
use guardprobes::*;

fn main() {
    #[cfg(feature = "witness")]
    if witness_requested() {
        run_witness("chain__new-from_binary__NON_ZERO_PRECISION__bad", || {
            witness::chain::<u32, u64, u32, 0>()
        });
    }
    if never() {
        let _c = ChainCoder::<u32, u64, Vec<u32>, Vec<u32>, 0>::from_binary(make());
    }
}
