//! covers: src/stream/model/categorical/lookup_noncontiguous.rs::from_symbol_table::USIZE_MUST_STRICTLY_SUPPORT_PRECISION
//! site: NonContiguousLookupDecoderModel<usize, usize, Vec<(usize, usize)>, Box<[usize]>, 64>::from_symbol_table (private) via ::from_iterable_entropy_model::<Dm<usize, 64>>
//! violates: PRECISION < usize::BITS (64 < 64); holds: 64 <= 64, 64 > 0
//! expect: compile-fail (E0080 naming the label)
#![allow(unused_imports, unused_mut, unused_variables, deprecated)]
use constriction::backends::Cursor;
use constriction::stream::chain::ChainCoder;
use constriction::stream::model::*;
use constriction::stream::queue::{RangeDecoder, RangeEncoder};
use constriction::stream::stack::AnsCoder;
use constriction::stream::{Decode, Encode};
use guardprobes::*;

fn main() {
    #[cfg(feature = "witness")]
    if witness_requested() {
        run_witness("cat__from_symbol_table__USIZE_MUST_STRICTLY_SUPPORT_PRECISION__bad", || {
            let src = Dm::<usize, 64>::new();
            let m = NonContiguousLookupDecoderModel::<usize, usize, Vec<(usize, usize)>, Box<[usize]>, 64>::from_iterable_entropy_model(&src);
            witness::decoder_model::<_, 64>(&m)
        });
    }
    if never() {
        let src: Dm<usize, 64> = make();
        let _m = NonContiguousLookupDecoderModel::<usize, usize, Vec<(usize, usize)>, Box<[usize]>, 64>::from_iterable_entropy_model(&src);
    }
}
