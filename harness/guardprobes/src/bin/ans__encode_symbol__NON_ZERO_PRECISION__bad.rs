//! covers: src/stream/stack.rs::encode_symbol::NON_ZERO_PRECISION
//! site: <AnsCoder<u32, u64, Vec<u32>> as Encode<0>>::encode_symbol
//! violates: PRECISION > 0 (0 > 0); holds: 64 >= 32 + 0, 64 >= 64
//! expect: compile-fail (E0080 naming the label)
#![allow(unused_imports, unused_mut, unused_variables, deprecated)]
use constriction::backends::Cursor;
use constriction::stream::chain::ChainCoder;
use constriction::stream::model::*;
use constriction::stream::queue::{RangeDecoder, RangeEncoder};
use constriction::stream::stack::AnsCoder;
use constriction::stream::{Decode, Encode};
use guardprobes::*;

fn main() {
    #[cfg(feature = "witness")]
    if witness_requested() {
        run_witness("ans__encode_symbol__NON_ZERO_PRECISION__bad", || {
            witness::ans::<u32, u64, u32, 0>()
        });
    }
    if never() {
        let mut c: AnsCoder<u32, u64, Vec<u32>> = make();
        let _ = Encode::<0>::encode_symbol(&mut c, 0usize, Dm::<u32, 0>::new());
    }
}
