//! covers: src/stream/chain.rs::increase_precision::PRECISION_MUST_NOT_DECREASE
//! site: ChainCoder<u32, u64, Vec<u32>, Vec<u32>, 24>::increase_precision::<16>
//! violates: NEW_PRECISION >= PRECISION (16 >= 24); holds: 16 <= 32, 64 >= 48
//! expect: compile-fail (E0080 naming the label)
#![allow(unused_imports, unused_mut, unused_variables, deprecated)]
use constriction::backends::Cursor;
use constriction::stream::chain::ChainCoder;
use constriction::stream::model::*;
use constriction::stream::queue::{RangeDecoder, RangeEncoder};
use constriction::stream::stack::AnsCoder;
use constriction::stream::{Decode, Encode};
use guardprobes::*;

fn main() {
    if never() {
        let c: ChainCoder<u32, u64, Vec<u32>, Vec<u32>, 24> = make();
        let _ = c.increase_precision::<16>();
    }
}
