//! covers: src/stream/chain.rs::encode_symbol::STATE_MUST_SUPPORT_PRECISION
//! site: <ChainCoder<u32, u32, Vec<u32>, Vec<u32>, 1> as Encode<1>>::encode_symbol
//! violates: State::BITS >= Word::BITS + PRECISION (32 >= 33); holds: 1 <= 32, 1 > 0
//! expect: compile-fail (E0080 naming the label)
#![allow(unused_imports, unused_mut, unused_variables, deprecated)]
use constriction::backends::Cursor;
use constriction::stream::chain::ChainCoder;
use constriction::stream::model::*;
use constriction::stream::queue::{RangeDecoder, RangeEncoder};
use constriction::stream::stack::AnsCoder;
use constriction::stream::{Decode, Encode};
use guardprobes::*;

fn main() {
    #[cfg(feature = "witness")]
    if witness_requested() {
        run_witness("chain__encode_symbol__STATE_MUST_SUPPORT_PRECISION__bad", || {
            witness::chain::<u32, u32, u32, 1>()
        });
    }
    if never() {
        let mut c: ChainCoder<u32, u32, Vec<u32>, Vec<u32>, 1> = make();
        let _ = Encode::<1>::encode_symbol(&mut c, 0usize, Dm::<u32, 1>::new());
    }
}
