//! covers: src/stream/model/uniform.rs::new::USIZE_MUST_SUPPORT_PRECISION
//! site: UniformModel::<u128, 65>::new
//! violates: PRECISION <= usize::BITS (65 <= 64); holds: 65 <= 128, 65 > 0
//! expect: compile-fail (E0080 naming the label)
#![allow(unused_imports, unused_mut, unused_variables, deprecated)]
use constriction::backends::Cursor;
use constriction::stream::chain::ChainCoder;
use constriction::stream::model::*;
use constriction::stream::queue::{RangeDecoder, RangeEncoder};
use constriction::stream::stack::AnsCoder;
use constriction::stream::{Decode, Encode};
use guardprobes::*;

fn main() {
    #[cfg(feature = "witness")]
    if witness_requested() {
        run_witness("cat__new-uniform__USIZE_MUST_SUPPORT_PRECISION__bad", || {
            let m = UniformModel::<u128, 65>::new(3);
            witness::model::<_, 65>(&m)
        });
    }
    if never() {
        let _m = UniformModel::<u128, 65>::new(2);
    }
}
