//! control: PRECISION == Probability::BITS, PRECISION == 1
//! expect: compiles
#![allow(unused_imports, unused_mut, unused_variables, deprecated)]
use constriction::backends::Cursor;
use constriction::stream::chain::ChainCoder;
use constriction::stream::model::*;
use constriction::stream::queue::{RangeDecoder, RangeEncoder};
use constriction::stream::stack::AnsCoder;
use constriction::stream::{Decode, Encode};
use guardprobes::*;

fn main() {
    if never() {
        let _ = LeakyQuantizer::<f64, i32, u8, 8>::new(-10..=10);
        let _ = LeakyQuantizer::<f64, i32, u8, 1>::new(-10..=10);
        let _ = LeakyQuantizer::<f64, i32, u32, 32>::new(-10..=10);
        let _ = LeakyQuantizer::<f32, i32, u16, 16>::new(-10..=10);
        let _ = LeakyQuantizer::<f64, u8, u32, 24>::new(0..=10);
        type L<Pr, const P: usize> = LazyContiguousCategoricalEntropyModel<Pr, f32, Vec<f32>, P>;
        let _ = L::<u8, 8>::from_floating_point_probabilities_fast(make(), None);
        let _ = L::<u8, 1>::from_floating_point_probabilities_fast(make(), None);
        let _ = L::<u32, 32>::from_floating_point_probabilities_fast(make(), None);
        let _ = L::<u16, 12>::from_floating_point_probabilities_fast(make(), None);
        let _ = LazyContiguousCategoricalEntropyModel::<u32, f64, Vec<f64>, 24>::from_floating_point_probabilities_fast(make(), None);
    }
}
