//! covers: src/stream/model/quantize.rs::new::PRECISION_MUST_BE_NONZERO
//! site: LeakyQuantizer::<f64, i32, u8, 0>::new
//! violates: PRECISION > 0 (0 > 0); holds: 0 <= 8
//! expect: compile-fail (E0080 naming the label)
#![allow(unused_imports, unused_mut, unused_variables, deprecated)]
use constriction::backends::Cursor;
use constriction::stream::chain::ChainCoder;
use constriction::stream::model::*;
use constriction::stream::queue::{RangeDecoder, RangeEncoder};
use constriction::stream::stack::AnsCoder;
use constriction::stream::{Decode, Encode};
use guardprobes::*;

fn main() {
    #[cfg(feature = "witness")]
    if witness_requested() {
        run_witness("quant__new-leaky_quantizer__PRECISION_MUST_BE_NONZERO__bad", || {
            let _q = LeakyQuantizer::<f64, i32, u8, 0>::new(-10..=10);
            Err("a LeakyQuantizer with PRECISION=0 over u8 was constructed".to_string())
        });
    }
    if never() {
        let _q = LeakyQuantizer::<f64, i32, u8, 0>::new(-10..=10);
    }
}
