//! covers: src/stream/model/categorical/lookup_contiguous.rs::from_floating_point_probabilities_fast::PRECISION_MUST_BE_NONZERO
//! site: ContiguousLookupDecoderModel<u8, Vec<u8>, Box<[u8]>, 0>::from_floating_point_probabilities_fast::<f64>
//! violates: PRECISION > 0 (0 > 0); holds: 0 <= 8, 0 < 64
//! note: the same label also fires in the private helper fast_quantized_cdf (categorical.rs) called from here
//! expect: compile-fail (E0080 naming the label)
#![allow(unused_imports, unused_mut, unused_variables, deprecated)]
use constriction::backends::Cursor;
use constriction::stream::chain::ChainCoder;
use constriction::stream::model::*;
use constriction::stream::queue::{RangeDecoder, RangeEncoder};
use constriction::stream::stack::AnsCoder;
use constriction::stream::{Decode, Encode};
use guardprobes::*;

fn main() {
    #[cfg(feature = "witness")]
    if witness_requested() {
        run_witness("cat__from_floating_point_probabilities_fast-lookup__PRECISION_MUST_BE_NONZERO__bad", || {
            let m = ContiguousLookupDecoderModel::<u8, Vec<u8>, Box<[u8]>, 0>::from_floating_point_probabilities_fast::<f64>(&[0.25, 0.75], None).map_err(|_| "constructor returned Err".to_string())?;
            witness::decoder_model::<_, 0>(&m)
        });
    }
    if never() {
        let _m = ContiguousLookupDecoderModel::<u8, Vec<u8>, Box<[u8]>, 0>::from_floating_point_probabilities_fast::<f64>(&[0.25, 0.75], None);
    }
}
