//! covers: src/stream/stack.rs::decode_symbol::PROBABILITY_SUPPORTS_PRECISION
//! site: <AnsCoder<u32, u64, Vec<u32>> as Decode<33>>::decode_symbol
//! violates: State::BITS >= Word::BITS + PRECISION (64 >= 65); holds: 64 >= 64, 33 > 0
//! expect: compile-fail (E0080 naming the label)
#![allow(unused_imports, unused_mut, unused_variables, deprecated)]
use constriction::backends::Cursor;
use constriction::stream::chain::ChainCoder;
use constriction::stream::model::*;
use constriction::stream::queue::{RangeDecoder, RangeEncoder};
use constriction::stream::stack::AnsCoder;
use constriction::stream::{Decode, Encode};
use guardprobes::*;

fn main() {
    #[cfg(feature = "witness")]
    if witness_requested() {
        run_witness("ans__decode_symbol__PROBABILITY_SUPPORTS_PRECISION__bad", || {
            witness::ans::<u32, u64, u32, 33>()
        });
    }
    if never() {
        let mut c: AnsCoder<u32, u64, Vec<u32>> = make();
        let _ = Decode::<33>::decode_symbol(&mut c, Dm::<u32, 33>::new());
    }
}
