//! covers: src/stream/chain.rs::change_precision::WORD_MUST_SUPPORT_NEW_PRECISION
//! site: ChainCoder<u16, u64, Vec<u16>, Vec<u16>, 8>::change_precision::<17>
//! violates: NEW_PRECISION <= Word::BITS (17 <= 16); holds: 17 > 0, 64 >= 33
//! expect: compile-fail (E0080 naming the label)
#![allow(unused_imports, unused_mut, unused_variables, deprecated)]
use constriction::backends::Cursor;
use constriction::stream::chain::ChainCoder;
use constriction::stream::model::*;
use constriction::stream::queue::{RangeDecoder, RangeEncoder};
use constriction::stream::stack::AnsCoder;
use constriction::stream::{Decode, Encode};
use guardprobes::*;

fn main() {
    if never() {
        let c: ChainCoder<u16, u64, Vec<u16>, Vec<u16>, 8> = make();
        let _ = c.change_precision::<17>();
    }
}
