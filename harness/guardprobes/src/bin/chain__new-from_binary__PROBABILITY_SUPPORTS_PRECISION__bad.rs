//! covers: src/stream/chain.rs::new::PROBABILITY_SUPPORTS_PRECISION
//! site: ChainCoderHeads::<u32, u32, 1>::new (private) via ChainCoder<u32, u32, Vec<u32>, Vec<u32>, 1>::from_binary
//! violates: State::BITS >= Word::BITS + PRECISION (32 >= 33); holds: 1 > 0, 1 <= 32
//! expect: compile-fail (E0080 naming the label)
#![allow(unused_imports, unused_mut, unused_variables, deprecated)]
use constriction::backends::Cursor;
use constriction::stream::chain::ChainCoder;
use constriction::stream::model::*;
use constriction::stream::queue::{RangeDecoder, RangeEncoder};
use constriction::stream::stack::AnsCoder;
use constriction::stream::{Decode, Encode};
use guardprobes::*;

fn main() {
    #[cfg(feature = "witness")]
    if witness_requested() {
        run_witness("chain__new-from_binary__PROBABILITY_SUPPORTS_PRECISION__bad", || {
            witness::chain::<u32, u32, u32, 1>()
        });
    }
    if never() {
        let _c = ChainCoder::<u32, u32, Vec<u32>, Vec<u32>, 1>::from_binary(make());
    }
}
