//! covers: src/stream/queue.rs::decode_symbol::NON_ZERO_PRECISION
//! site: <RangeDecoder<u32, u64, Cursor<u32, Vec<u32>>> as Decode<0>>::decode_symbol
//! violates: PRECISION > 0 (0 > 0); holds: 64 >= 32, 64 >= 64, 64 % 32 == 0
//! expect: compile-fail (E0080 naming the label)
#![allow(unused_imports, unused_mut, unused_variables, deprecated)]
use constriction::backends::Cursor;
use constriction::stream::chain::ChainCoder;
use constriction::stream::model::*;
use constriction::stream::queue::{RangeDecoder, RangeEncoder};
use constriction::stream::stack::AnsCoder;
use constriction::stream::{Decode, Encode};
use guardprobes::*;

fn main() {
    #[cfg(feature = "witness")]
    if witness_requested() {
        run_witness("range__decode_symbol__NON_ZERO_PRECISION__bad", || {
            witness::range::<u32, u64, u32, 0>()
        });
    }
    if never() {
        let mut c: RangeDecoder<u32, u64, Cursor<u32, Vec<u32>>> = make();
        let _ = Decode::<0>::decode_symbol(&mut c, Dm::<u32, 0>::new());
    }
}
