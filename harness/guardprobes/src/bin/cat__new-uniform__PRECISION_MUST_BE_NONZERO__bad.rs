//! covers: src/stream/model/uniform.rs::new::PRECISION_MUST_BE_NONZERO
//! site: UniformModel::<u8, 0>::new
//! violates: PRECISION > 0 (0 > 0); holds: 0 <= 8, 0 <= 64
//! expect: compile-fail (E0080 naming the label)
#![allow(unused_imports, unused_mut, unused_variables, deprecated)]
use constriction::backends::Cursor;
use constriction::stream::chain::ChainCoder;
use constriction::stream::model::*;
use constriction::stream::queue::{RangeDecoder, RangeEncoder};
use constriction::stream::stack::AnsCoder;
use constriction::stream::{Decode, Encode};
use guardprobes::*;

fn main() {
    #[cfg(feature = "witness")]
    if witness_requested() {
        run_witness("cat__new-uniform__PRECISION_MUST_BE_NONZERO__bad", || {
            let m = UniformModel::<u8, 0>::new(3);
            witness::model::<_, 0>(&m)
        });
    }
    if never() {
        let _m = UniformModel::<u8, 0>::new(2);
    }
}
