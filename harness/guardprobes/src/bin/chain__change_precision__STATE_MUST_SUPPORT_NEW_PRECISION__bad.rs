//! covers: src/stream/chain.rs::change_precision::STATE_MUST_SUPPORT_NEW_PRECISION
//! site: ChainCoder<u32, u32, Vec<u32>, Vec<u32>, 1>::change_precision::<1>
//! violates: State::BITS >= Word::BITS + NEW_PRECISION (32 >= 33); holds: 1 > 0, 1 <= 32
//! expect: compile-fail (E0080 naming the label)
#![allow(unused_imports, unused_mut, unused_variables, deprecated)]
use constriction::backends::Cursor;
use constriction::stream::chain::ChainCoder;
use constriction::stream::model::*;
use constriction::stream::queue::{RangeDecoder, RangeEncoder};
use constriction::stream::stack::AnsCoder;
use constriction::stream::{Decode, Encode};
use guardprobes::*;

fn main() {
    if never() {
        let c: ChainCoder<u32, u32, Vec<u32>, Vec<u32>, 1> = make();
        let _ = c.change_precision::<1>();
    }
}
