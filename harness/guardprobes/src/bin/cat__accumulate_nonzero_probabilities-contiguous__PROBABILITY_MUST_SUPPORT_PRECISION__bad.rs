//! covers: src/stream/model/categorical.rs::accumulate_nonzero_probabilities::PROBABILITY_MUST_SUPPORT_PRECISION
//! site: accumulate_nonzero_probabilities (private) via ContiguousCategoricalEntropyModel<u8, Vec<u8>, 9>::from_nonzero_fixed_point_probabilities
//! violates: PRECISION <= Probability::BITS (9 <= 8); holds: 9 > 0
//! expect: compile-fail (E0080 naming the label)
#![allow(unused_imports, unused_mut, unused_variables, deprecated)]
use constriction::backends::Cursor;
use constriction::stream::chain::ChainCoder;
use constriction::stream::model::*;
use constriction::stream::queue::{RangeDecoder, RangeEncoder};
use constriction::stream::stack::AnsCoder;
use constriction::stream::{Decode, Encode};
use guardprobes::*;

fn main() {
    #[cfg(feature = "witness")]
    if witness_requested() {
        run_witness("cat__accumulate_nonzero_probabilities-contiguous__PROBABILITY_MUST_SUPPORT_PRECISION__bad", || {
            let m = ContiguousCategoricalEntropyModel::<u8, Vec<u8>, 9>::from_nonzero_fixed_point_probabilities([1u8, 1].iter(), true).map_err(|_| "constructor returned Err".to_string())?;
            witness::model::<_, 9>(&m)
        });
    }
    if never() {
        let _m = ContiguousCategoricalEntropyModel::<u8, Vec<u8>, 9>::from_nonzero_fixed_point_probabilities([1u8, 1].iter(), true);
    }
}
