//! covers: src/stream/queue.rs::encode_symbol::STATE_SIZE_IS_MULTIPLE_OF_WORD_SIZE
//! site: <RangeEncoder<u16, Bx<40>, Vec<u16>> as Encode<8>>::encode_symbol
//! violates: State::BITS % Word::BITS == 0 (40 % 16 == 8); holds: 40 >= 16 + 8, 8 > 0, 40 >= 32
//! expect: compile-fail (E0080 naming the label)
#![allow(unused_imports, unused_mut, unused_variables, deprecated)]
use constriction::backends::Cursor;
use constriction::stream::chain::ChainCoder;
use constriction::stream::model::*;
use constriction::stream::queue::{RangeDecoder, RangeEncoder};
use constriction::stream::stack::AnsCoder;
use constriction::stream::{Decode, Encode};
use guardprobes::*;

fn main() {
    #[cfg(feature = "witness")]
    if witness_requested() {
        run_witness("range__encode_symbol__STATE_SIZE_IS_MULTIPLE_OF_WORD_SIZE__bad", || {
            witness::range::<u16, Bx<40>, u16, 8>()
        });
    }
    if never() {
        let mut c: RangeEncoder<u16, Bx<40>, Vec<u16>> = make();
        let _ = Encode::<8>::encode_symbol(&mut c, 0usize, Dm::<u16, 8>::new());
    }
}
