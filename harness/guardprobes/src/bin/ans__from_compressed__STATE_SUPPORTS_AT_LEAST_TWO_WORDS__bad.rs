//! covers: src/stream/stack.rs::from_compressed::STATE_SUPPORTS_AT_LEAST_TWO_WORDS
//! site: AnsCoder::<u32, u32, Vec<u32>>::from_compressed
//! violates: State::BITS >= 2 * Word::BITS (32 >= 64)
//! expect: compile-fail (E0080 naming the label)
#![allow(unused_imports, unused_mut, unused_variables, deprecated)]
use constriction::backends::Cursor;
use constriction::stream::chain::ChainCoder;
use constriction::stream::model::*;
use constriction::stream::queue::{RangeDecoder, RangeEncoder};
use constriction::stream::stack::AnsCoder;
use constriction::stream::{Decode, Encode};
use guardprobes::*;

fn main() {
    #[cfg(feature = "witness")]
    if witness_requested() {
        run_witness("ans__from_compressed__STATE_SUPPORTS_AT_LEAST_TWO_WORDS__bad", || {
            witness::ans::<u32, u32, u32, 1>()
        });
    }
    if never() {
        let _c = AnsCoder::<u32, u32, Vec<u32>>::from_compressed(make());
    }
}
