//! control: PRECISION == Probability::BITS, PRECISION == 1, PRECISION == usize::BITS - 1 (lookup), PRECISION == usize::BITS (uniform)
//! expect: compiles
#![allow(unused_imports, unused_mut, unused_variables, deprecated)]
use constriction::backends::Cursor;
use constriction::stream::chain::ChainCoder;
use constriction::stream::model::*;
use constriction::stream::queue::{RangeDecoder, RangeEncoder};
use constriction::stream::stack::AnsCoder;
use constriction::stream::{Decode, Encode};
use guardprobes::*;

fn main() {
    if never() {
        macro_rules! lookup {
            ($Pr:ty, $P:literal) => {{
                type LC = ContiguousLookupDecoderModel<$Pr, Vec<$Pr>, Box<[$Pr]>, $P>;
                type LN = NonContiguousLookupDecoderModel<usize, $Pr, Vec<($Pr, usize)>, Box<[$Pr]>, $P>;
                let p: Vec<$Pr> = make();
                let _ = LC::from_floating_point_probabilities_fast::<f64>(&[0.25, 0.75], None);
                let _ = LC::from_nonzero_fixed_point_probabilities(p.iter(), false);
                let _ = DecoderModel::<$P>::quantile_function(&make::<LC>(), make());
                let _ = LN::from_symbols_and_nonzero_fixed_point_probabilities(0usize..2, p.iter(), false);
                let _ = LN::from_iterable_entropy_model(&make::<Dm<$Pr, $P>>());
                let _ = LN::from_symbols_and_floating_point_probabilities_fast::<f64>(0usize..2, &[0.25, 0.75], None);
                let _ = DecoderModel::<$P>::quantile_function(&make::<LN>(), make());
            }};
        }
        macro_rules! cat {
            ($Pr:ty, $P:literal) => {{
                type CC = ContiguousCategoricalEntropyModel<$Pr, Vec<$Pr>, $P>;
                type ND = NonContiguousCategoricalDecoderModel<usize, $Pr, Vec<($Pr, usize)>, $P>;
                type NE = NonContiguousCategoricalEncoderModel<usize, $Pr, $P>;
                let p: Vec<$Pr> = make();
                let _ = CC::from_floating_point_probabilities_fast::<f64>(&[0.25, 0.75], None);
                let _ = CC::from_floating_point_probabilities_perfect::<f64>(&[0.25, 0.75]);
                let _ = CC::from_nonzero_fixed_point_probabilities(p.iter(), false);
                let _ = ND::from_symbols_and_floating_point_probabilities_fast::<f64>(0usize..2, &[0.25, 0.75], None);
                let _ = ND::from_symbols_and_floating_point_probabilities_perfect::<f64>(0usize..2, &[0.25, 0.75]);
                let _ = ND::from_symbols_and_nonzero_fixed_point_probabilities(0usize..2, p.iter(), false);
                let _ = NE::from_symbols_and_floating_point_probabilities_fast::<f64>(0usize..2, &[0.25, 0.75], None);
                let _ = NE::from_symbols_and_floating_point_probabilities_perfect::<f64>(0usize..2, &[0.25, 0.75]);
                let _ = NE::from_symbols_and_nonzero_fixed_point_probabilities(0usize..2, p.iter(), false);
            }};
        }
        lookup!(u8, 8);
        lookup!(u8, 1);
        lookup!(u16, 16);
        lookup!(u16, 12);
        lookup!(usize, 63);
        lookup!(usize, 1);
        cat!(u8, 8);
        cat!(u8, 1);
        cat!(u16, 16);
        cat!(u32, 32);
        cat!(u32, 24);
        cat!(u32, 1);
        let _ = UniformModel::<u8, 8>::new(2);
        let _ = UniformModel::<u8, 1>::new(2);
        let _ = UniformModel::<u32, 32>::new(2);
        let _ = UniformModel::<u64, 64>::new(2);
        let _ = UniformModel::<u128, 64>::new(2);
        let _ = UniformModel::<usize, 64>::new(2);
    }
}
