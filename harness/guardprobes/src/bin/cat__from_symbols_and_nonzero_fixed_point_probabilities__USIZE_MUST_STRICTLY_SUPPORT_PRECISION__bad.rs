//! covers: src/stream/model/categorical/lookup_noncontiguous.rs::from_symbols_and_nonzero_fixed_point_probabilities::USIZE_MUST_STRICTLY_SUPPORT_PRECISION
//! site: NonContiguousLookupDecoderModel<usize, usize, Vec<(usize, usize)>, Box<[usize]>, 64>::from_symbols_and_nonzero_fixed_point_probabilities
//! violates: PRECISION < usize::BITS (64 < 64); holds: 64 <= 64, 64 > 0
//! expect: compile-fail (E0080 naming the label)
#![allow(unused_imports, unused_mut, unused_variables, deprecated)]
use constriction::backends::Cursor;
use constriction::stream::chain::ChainCoder;
use constriction::stream::model::*;
use constriction::stream::queue::{RangeDecoder, RangeEncoder};
use constriction::stream::stack::AnsCoder;
use constriction::stream::{Decode, Encode};
use guardprobes::*;

fn main() {
    #[cfg(feature = "witness")]
    if witness_requested() {
        run_witness("cat__from_symbols_and_nonzero_fixed_point_probabilities__USIZE_MUST_STRICTLY_SUPPORT_PRECISION__bad", || {
            let p: Vec<usize> = vec![1, 1];
            let m = NonContiguousLookupDecoderModel::<usize, usize, Vec<(usize, usize)>, Box<[usize]>, 64>::from_symbols_and_nonzero_fixed_point_probabilities(0usize..3, p.iter(), true).map_err(|_| "constructor returned Err".to_string())?;
            witness::decoder_model::<_, 64>(&m)
        });
    }
    if never() {
        let p: Vec<usize> = make();
        let _m = NonContiguousLookupDecoderModel::<usize, usize, Vec<(usize, usize)>, Box<[usize]>, 64>::from_symbols_and_nonzero_fixed_point_probabilities(0usize..2, p.iter(), false);
    }
}
