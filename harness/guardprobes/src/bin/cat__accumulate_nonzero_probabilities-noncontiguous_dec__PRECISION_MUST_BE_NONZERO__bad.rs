//! covers: src/stream/model/categorical.rs::accumulate_nonzero_probabilities::PRECISION_MUST_BE_NONZERO
//! site: accumulate_nonzero_probabilities (private) via NonContiguousCategoricalDecoderModel<usize, u8, Vec<(u8, usize)>, 0>::from_symbols_and_nonzero_fixed_point_probabilities
//! violates: PRECISION > 0 (0 > 0); holds: 0 <= 8
//! expect: compile-fail (E0080 naming the label)
#![allow(unused_imports, unused_mut, unused_variables, deprecated)]
use constriction::backends::Cursor;
use constriction::stream::chain::ChainCoder;
use constriction::stream::model::*;
use constriction::stream::queue::{RangeDecoder, RangeEncoder};
use constriction::stream::stack::AnsCoder;
use constriction::stream::{Decode, Encode};
use guardprobes::*;

fn main() {
    #[cfg(feature = "witness")]
    if witness_requested() {
        run_witness("cat__accumulate_nonzero_probabilities-noncontiguous_dec__PRECISION_MUST_BE_NONZERO__bad", || {
            let m = NonContiguousCategoricalDecoderModel::<usize, u8, Vec<(u8, usize)>, 0>::from_symbols_and_nonzero_fixed_point_probabilities(0usize..3, [1u8, 1].iter(), true).map_err(|_| "constructor returned Err".to_string())?;
            witness::model::<_, 0>(&m)
        });
    }
    if never() {
        let _m = NonContiguousCategoricalDecoderModel::<usize, u8, Vec<(u8, usize)>, 0>::from_symbols_and_nonzero_fixed_point_probabilities(0usize..3, [1u8, 1].iter(), true);
    }
}
