//! covers: src/stream/model/categorical/lazy_contiguous.rs::from_floating_point_probabilities_fast::PRECISION_MUST_BE_NONZERO
//! site: LazyContiguousCategoricalEntropyModel<u8, f32, Vec<f32>, 0>::from_floating_point_probabilities_fast
//! violates: PRECISION > 0 (0 > 0); holds: 0 <= 8
//! expect: compile-fail (E0080 naming the label)
#![allow(unused_imports, unused_mut, unused_variables, deprecated)]
use constriction::backends::Cursor;
use constriction::stream::chain::ChainCoder;
use constriction::stream::model::*;
use constriction::stream::queue::{RangeDecoder, RangeEncoder};
use constriction::stream::stack::AnsCoder;
use constriction::stream::{Decode, Encode};
use guardprobes::*;

fn main() {
    #[cfg(feature = "witness")]
    if witness_requested() {
        run_witness("quant__from_floating_point_probabilities_fast-lazy__PRECISION_MUST_BE_NONZERO__bad", || {
            let m = LazyContiguousCategoricalEntropyModel::<u8, f32, Vec<f32>, 0>::from_floating_point_probabilities_fast(vec![0.25f32, 0.75], None).map_err(|_| "constructor returned Err".to_string())?;
            witness::encdec_model::<_, 0>(&m, 2)
        });
    }
    if never() {
        let _m = LazyContiguousCategoricalEntropyModel::<u8, f32, Vec<f32>, 0>::from_floating_point_probabilities_fast(make(), None);
    }
}
